(* C18 -- the text layer of code emission as token lists (definitions only).
   Transcribes piquasso/api/instruction.py:Instruction._as_code, _param_repr (with the repaired
   ndarray rendering: repr under floatmode="unique", threshold=maxsize, dtype=np.<name>) and
   piquasso/api/program.py:Program._as_code.  A token is what Python's `tokenize` yields for the
   emitted text (NUMBER, OP, NAME, NEWLINE; NL/INDENT/DEDENT/COMMENT/ENDMARKER are dropped by the
   harness, the names with a role in the grammar get their own constructor).
   The value domain is the one rendered exactly: ints, bools, floats (str = repr), nested
   tuples/lists of those, and arrays of those (nested brackets).  A float literal token carries
   the float it denotes; that float(repr(x)) = x for finite x is Python's documented guarantee
   and appears as the section hypothesis of the round-trip theorems, split at the sign because
   `-0.3` is the two tokens `-` `0.3`. *)
From Coq Require Import ZArith List Bool String.
Import ListNotations.
Open Scope Z_scope.

Section Tok.
Variable F : Type.
Variables (fneg fabs : F -> F) (fis_neg : F -> bool).

Inductive tok :=
| TInt (n : Z) | TFloat (f : F)
| TMinus | TLP | TRP | TLB | TRB | TComma | TDot | TEq | TPipe | TColon
| TTrue | TFalse | TNp | TArray | TDtype | TPq | TQ
| TWith | TProgram | TAs | TPass | TNewline
| TIdent (s : string).

Inductive brk := Paren | Brack.

Inductive pval :=
| VInt (z : Z)
| VBool (b : bool)
| VFloat (f : F)
| VSeq (k : brk) (items : list pval)        (* tuple / list *)
| VArr (dt : option string) (body : pval).  (* np.array(body[, dtype=np.<dt>]) *)

Definition open_of (k : brk) := match k with Paren => TLP | Brack => TLB end.
Definition close_of (k : brk) := match k with Paren => TRP | Brack => TRB end.
Definition is_close (k : brk) (t : tok) : bool :=
  match k, t with Paren, TRP => true | Brack, TRB => true | _, _ => false end.

Section Sep.
Variable A : Type.
Variable r : A -> list tok.
Fixpoint sep (l : list A) : list tok :=
  match l with
  | [] => []
  | x :: rest => r x ++ match rest with [] => [] | _ => TComma :: sep rest end
  end.
End Sep.

(* str(value) / _param_repr(value), tokenised *)
Fixpoint render (v : pval) : list tok :=
  match v with
  | VInt z => if z <? 0 then [TMinus; TInt (- z)] else [TInt z]
  | VBool b => [if b then TTrue else TFalse]
  | VFloat f => if fis_neg f then [TMinus; TFloat (fabs f)] else [TFloat f]
  | VSeq k items =>
      open_of k ::
      (fix go (l : list pval) : list tok :=
         match l with
         | [] => []
         | x :: rest => render x ++ match rest with [] => [] | _ => TComma :: go rest end
         end) items
      ++ (match k, items with Paren, [_] => [TComma] | _, _ => [] end)   (* (x,) *)
      ++ [close_of k]
  | VArr dt body =>
      [TNp; TDot; TArray; TLP] ++ render body ++
      (match dt with None => [] | Some d => [TComma; TDtype; TEq; TNp; TDot; TIdent d] end) ++ [TRP]
  end.

(* ------------------------------------------------------------------ reading the tokens back
   (what Python's parser + evaluation makes of them, on this grammar) *)
Definition vparser := list tok -> option (pval * list tok).

(* comma-separated values up to the closing bracket; also says whether a comma was seen *)
Fixpoint items_with (P : vparser) (k : brk) (m : nat) (ts : list tok)
  : option (list pval * bool * list tok) :=
  match m with
  | O => None
  | S m' =>
      match ts with
      | [] => None
      | t :: r =>
          if is_close k t then Some ([], false, r)
          else match P ts with
               | Some (v, t2 :: r2) =>
                   if is_close k t2 then Some ([v], false, r2)
                   else match t2 with
                        | TComma =>
                            match items_with P k m' r2 with
                            | Some (vs, _, r3) => Some (v :: vs, true, r3)
                            | None => None
                            end
                        | _ => None
                        end
               | _ => None
               end
      end
  end.

Fixpoint parse (n : nat) (ts : list tok) : option (pval * list tok) :=
  match n with
  | O => None
  | S n' =>
      match ts with
      | TInt k :: r => Some (VInt k, r)
      | TMinus :: TInt k :: r => Some (VInt (- k), r)
      | TFloat f :: r => Some (VFloat f, r)
      | TMinus :: TFloat f :: r => Some (VFloat (fneg f), r)
      | TTrue :: r => Some (VBool true, r)
      | TFalse :: r => Some (VBool false, r)
      | TLP :: r =>
          match items_with (parse n') Paren (List.length r) r with
          | Some ([v], false, r') => Some (v, r')              (* a parenthesised expression *)
          | Some (vs, _, r') => Some (VSeq Paren vs, r')
          | None => None
          end
      | TLB :: r =>
          match items_with (parse n') Brack (List.length r) r with
          | Some (vs, _, r') => Some (VSeq Brack vs, r')
          | None => None
          end
      | TNp :: TDot :: TArray :: TLP :: r =>
          match parse n' r with
          | Some (body, TRP :: r') => Some (VArr None body, r')
          | Some (body, TComma :: TDtype :: TEq :: TNp :: TDot :: TIdent d :: TRP :: r') =>
              Some (VArr (Some d) body, r')
          | _ => None
          end
      | _ => None
      end
  end.

Fixpoint depth (v : pval) : nat :=
  match v with
  | VSeq _ items => S (fold_right (fun x acc => Nat.max (depth x) acc) O items)
  | VArr _ body => S (depth body)
  | _ => 1%nat
  end.

(* ------------------------------------------------------------------ instructions and programs *)
Record cinstr := mkCI {
  ci_cls : string;
  ci_modes : list Z;
  ci_params : list (string * pval);   (* Instruction.params, in dict order *)
  ci_cond : bool                      (* a .when(...) condition is attached *)
}.

Definition render_param (kv : string * pval) : list tok := TIdent (fst kv) :: TEq :: render (snd kv).

(* instruction.py:Instruction._as_code; None = PiquassoException("Cannot convert a conditioned
   instruction to code") *)
Definition instr_tokens (i : cinstr) : option (list tok) :=
  if ci_cond i then None
  else Some ([TPq; TDot; TQ; TLP] ++ sep pval render (map VInt (ci_modes i)) ++
             [TRP; TPipe; TPq; TDot; TIdent (ci_cls i); TLP] ++
             sep (string * pval) render_param (ci_params i) ++ [TRP]).

Fixpoint params_with (P : vparser) (m : nat) (ts : list tok)
  : option (list (string * pval) * list tok) :=
  match m with
  | O => None
  | S m' =>
      match ts with
      | TRP :: r => Some ([], r)
      | TIdent k :: TEq :: r =>
          match P r with
          | Some (v, TRP :: r2) => Some ([(k, v)], r2)
          | Some (v, TComma :: r2) =>
              match params_with P m' r2 with
              | Some (ps, r3) => Some ((k, v) :: ps, r3)
              | None => None
              end
          | _ => None
          end
      | _ => None
      end
  end.

Fixpoint all_ints (l : list pval) : option (list Z) :=
  match l with
  | [] => Some []
  | VInt z :: r => match all_ints r with Some zs => Some (z :: zs) | None => None end
  | _ => None
  end.

(* executing `pq.Q(...) | pq.Cls(...)` inside a `with pq.Program()` block: the instruction
   appended to the program (class, modes, params); never a condition *)
Definition read_instr (ts : list tok) : option (cinstr * list tok) :=
  let n := List.length ts in
  match ts with
  | TPq :: TDot :: TQ :: TLP :: r =>
      match items_with (parse n) Paren n r with
      | Some (ms, _, TPipe :: TPq :: TDot :: TIdent c :: TLP :: r2) =>
          match all_ints ms, params_with (parse n) n r2 with
          | Some zs, Some (ps, r3) => Some (mkCI c zs ps false, r3)
          | _, _ => None
          end
      | _ => None
      end
  | _ => None
  end.

Definition header : list tok :=
  [TWith; TPq; TDot; TProgram; TLP; TRP; TAs; TIdent "program"; TColon; TNewline].

Fixpoint mapMo {X Y} (f : X -> option Y) (l : list X) : option (list Y) :=
  match l with
  | [] => Some []
  | a :: r => match f a, mapMo f r with Some b, Some bs => Some (b :: bs) | _, _ => None end
  end.

(* program.py:Program._as_code *)
Definition program_tokens (p : list cinstr) : option (list tok) :=
  match mapMo instr_tokens p with
  | None => None
  | Some ls => Some (header ++ match p with
                               | [] => [TPass; TNewline]
                               | _ => List.concat (map (fun l => l ++ [TNewline]) ls)
                               end)
  end.

Fixpoint read_lines (m : nat) (ts : list tok) : option (list cinstr) :=
  match m with
  | O => None
  | S m' =>
      match ts with
      | [] => Some []
      | [TPass; TNewline] => Some []
      | _ => match read_instr ts with
             | Some (i, TNewline :: r) =>
                 match read_lines m' r with Some is_ => Some (i :: is_) | None => None end
             | _ => None
             end
      end
  end.

Definition read_program (ts : list tok) : option (list cinstr) :=
  match ts with
  | TWith :: TPq :: TDot :: TProgram :: TLP :: TRP :: TAs :: TIdent _ :: TColon :: TNewline :: r =>
      read_lines (S (List.length r)) r
  | _ => None
  end.

End Tok.
