(* C18 -- the Blackbird parameter round trip, re-proved against the generated table on every
   run.  The scripts do not depend on the shape of the table. *)
From Coq Require Import String List ZArith Bool Lia.
From PV Require Import C18.BlackbirdModel C18.BlackbirdGen.
Import ListNotations.

Section P.
Variable V : Type.
Variable dflt : string -> nat -> V.

(* export is refused exactly for the classes that are not a value of the map (any table) *)
Theorem export_refused_iff (T : list bb_row) cls (p : list (string * V)) modes :
  export V T cls p modes = None <-> ~ In cls (map pq_name T).
Proof.
  unfold export, find_pq. split.
  - destruct (find _ (rev T)) eqn:E; try discriminate. intros _ Hin.
    apply in_map_iff in Hin. destruct Hin as [r [Hr Hin]].
    apply in_rev in Hin. pose proof (find_none _ _ E _ Hin) as Hn. simpl in Hn.
    subst cls. rewrite String.eqb_refl in Hn. discriminate.
  - intros Hn. destruct (find _ (rev T)) eqn:E; auto.
    apply find_some in E. destruct E as [Hin He]. apply String.eqb_eq in He.
    exfalso. apply Hn. apply in_map_iff. exists b. split; auto. apply in_rev; auto.
Qed.

Theorem import_refused_iff (T : list bb_row) op :
  find_bb T op = None <-> ~ In op (map bb_name T).
Proof.
  unfold find_bb. split.
  - intros E Hin. apply in_map_iff in Hin. destruct Hin as [r [Hr Hin]].
    pose proof (find_none _ _ E _ Hin) as Hn. simpl in Hn. subst op.
    rewrite String.eqb_refl in Hn. discriminate.
  - intros Hn. destruct (find _ T) eqn:E; auto.
    apply find_some in E. destruct E as [Hin He]. apply String.eqb_eq in He.
    exfalso. apply Hn. apply in_map_iff. exists b. split; auto.
Qed.

(* every row of the generated table: import after export is the identity on parameter
   dictionaries of arbitrary values, and on the modes *)
Theorem blackbird_param_roundtrip :
  Forall (row_roundtrips V dflt bb_table) bb_table.
Proof.
  unfold bb_table.
  repeat (apply Forall_cons || apply Forall_nil);
    (intros vs modes Hl; cbn in Hl;
     repeat (destruct vs as [|? vs]; cbn in Hl; try discriminate Hl);
     eexists; repeat split; vm_compute; reflexivity).
Qed.
End P.

(* the mapped names are pairwise distinct in both directions (otherwise the inversion
   {v: k for k, v in ...} would lose entries) *)
Theorem bb_names_distinct : NoDup (map bb_name bb_table) /\ NoDup (map pq_name bb_table).
Proof.
  split; unfold bb_table; simpl;
  repeat (apply NoDup_cons; [simpl; intuition discriminate|]); apply NoDup_nil.
Qed.

(* every mapped class exists among the instruction classes of the package *)
Theorem bb_classes_exist :
  forallb (fun r => existsb (String.eqb (pq_name r)) all_instruction_classes) bb_table = true.
Proof. vm_compute. reflexivity. Qed.
