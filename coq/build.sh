#!/bin/bash
# Full .vo build of the Coq development (no arguments) or of the given .vo targets with
# their dependencies.  Own tiny Makefile (Makefile.mini) and own dependency scan (mkdeps.py,
# one process, tolerant of files that do not lex) instead of coq_makefile/coqdep.  No lock:
# each invocation uses its own dependency file; checks build their own directories.
cd "$(dirname "$0")" || exit 2
deps=".deps.$$"
python3 mkdeps.py > "$deps" || { rm -f "$deps"; exit 2; }
if [ $# -eq 0 ]; then
  timeout 3000 make -f Makefile.mini DEPS="$deps" -j16 all 2>&1
else
  timeout 3000 make -f Makefile.mini DEPS="$deps" -j8 "$@" 2>&1
fi
rc=$?
rm -f "$deps"
exit $rc
