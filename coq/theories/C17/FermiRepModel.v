(* C17 - executable model of the fermionic Fock-space simulator.
   Definitions only (proofs: FermiRankProofs.v, FermiRepProofs.v, FermiParityProofs.v).

   piquasso/_simulators/connectors/connections.py :
       calculate_interferometer_on_fermionic_fock_space            -> rep_sector_generic, reps_generic
       _nb_calculate_index_list_for_appling_interferometer         -> interf_index_list
       apply_fermionic_passive_linear_to_state_vector              -> apply_passive
   piquasso/_simulators/connectors/_utils.py :
       precalculate_fermionic_passive_linear_indices               -> precalc
   piquasso/_simulators/connectors/numpy_/connections.py :
       calculate_interferometer_on_fermionic_fock_space            -> rep_sector_numba, reps_numba
   piquasso/fermionic/fock/_utils.py :
       calculate_indices_for_controlled_phase                      -> cphase_indices
       calculate_indices_for_ising_XX                              -> ising_indices
   piquasso/fermionic/fock/simulation_steps.py :
       state_vector (occupation numbers), passive_linear, squeezing2, controlled_phase, ising_XX
                                                                   -> prepare, apply_gate, run_program
   piquasso/fermionic/fock/state.py : fock_probabilities           -> probabilities (at Q[i])
   The basis order, rank and next_first_quantized come from Comb/FermiModel.v. *)
From Coq Require Import ZArith QArith Qabs List Bool.
From PV Require Import Comb.FockModel Comb.FermiModel.
Import ListNotations.
Open Scope Z_scope.

(* ---------------------------------------------------------------- list helpers *)
Definition del_nth {T} (k : nat) (l : list T) : list T := firstn k l ++ skipn (S k) l.

(* l[i] := x  (no change when i is out of range) *)
Fixpoint upd {T} (l : list T) (i : nat) (x : T) : list T :=
  match l, i with
  | [], _ => []
  | _ :: r, O => x :: r
  | a :: r, S i' => a :: upd r i' x
  end.

Definition zupd {T} (l : list T) (i : Z) (x : T) : list T :=
  if i <? 0 then l else upd l (Z.to_nat i) x.

(* v[positions] := values *)
Fixpoint scatter {T} (v : list T) (positions : list Z) (values : list T) : list T :=
  match positions, values with
  | p :: ps, x :: xs => scatter (zupd v p x) ps xs
  | _, _ => v
  end.

Definition zmget (M : list (list Z)) (i j : nat) : Z := nth j (nth i M []) 0.

(* first-quantised walk of one sector: arange(n), then next_first_quantized, comb(d,n) times *)
Definition fq_start (n : nat) : list Z := map Z.of_nat (seq 0 n).
Definition fq_walk (d : Z) (n : nat) : list (list Z) :=
  iterate_list (fun X => next_fq X d) (Z.to_nat (f_subspace_dim d (Z.of_nat n))) (fq_start n).

(* np.delete(np.arange(d), modes) *)
Definition aux_modes (d : nat) (modes : list Z) : list Z :=
  filter (fun m => negb (existsb (Z.eqb m) modes)) (map Z.of_nat (seq 0 d)).

(* ---------------------------------------------------------------- index tables *)
Definition sq_walk (d : nat) (size : Z) : list (list Z) :=
  iterate_list next_sq (Z.to_nat size) (repeat 0 d).

Definition full_occ (d : nat) (modes : list Z) (mvals : list Z) (aux : list Z) : list Z :=
  scatter (scatter (repeat 0 d) (aux_modes d modes) aux) modes mvals.

Definition cphase_indices (d : nat) (cutoff : Z) (modes : list Z) : list Z :=
  map (fun aux => f_index (full_occ d modes [1; 1] aux))
      (sq_walk (d - 2) (f_cutoff_dim (Z.of_nat d - 2) cutoff)).

Definition ising_rows : list (list Z) := [[0; 0]; [0; 1]; [1; 0]; [1; 1]].   (* j // 2, j % 2 *)

Definition ising_indices (d : nat) (cutoff : Z) (modes : list Z) : list (list Z) :=
  map (fun aux => map (fun mv => f_index (full_occ d modes mv aux)) ising_rows)
      (sq_walk (d - 2) (f_cutoff_dim (Z.of_nat d - 2) cutoff)).

Definition interf_index_list (modes : list Z) (d : nat) (cutoff : nat) : list (list (list Z)) :=
  let k := length modes in
  let sub := f_basis k (Z.of_nat cutoff) in
  let auxb := f_basis (d - k) (Z.of_nat cutoff) in
  map (fun n =>
         let lo := Z.to_nat (f_cutoff_dim (Z.of_nat k) (Z.of_nat n)) in
         let hi := Z.to_nat (f_cutoff_dim (Z.of_nat k) (Z.of_nat (S n))) in
         let nsub := firstn (hi - lo) (skipn lo sub) in
         let auxsize := Z.to_nat (f_cutoff_dim (Z.of_nat (d - k)) (Z.of_nat (cutoff - n))) in
         map (fun col => map (fun auxocc => f_index (full_occ d modes col auxocc))
                             (firstn auxsize auxb)) nsub)
      (seq 0 cutoff).

(* ---------------------------------------------------------------- over a ring *)
Section Ring.
Variable A : Type.
Variables (zero one : A) (add mul : A -> A -> A) (opp : A -> A).

Definition mget (M : list (list A)) (i j : Z) : A :=
  nth (Z.to_nat j) (nth (Z.to_nat i) M []) zero.

Definition sgn (k : nat) : A := if Nat.even k then one else opp one.   (* (-1) ** (k % 2) *)

(* one Laplace term and the sum over laplace_index, accumulated from 0 in increasing order *)
Definition lap_sum (n : nat) (term : nat -> A) : A :=
  fold_left (fun s k => add s (term k)) (seq 0 n) zero.

(* first-row Laplace expansion on index lists: the determinant of U[R, C] *)
Fixpoint lminor (Uf : Z -> Z -> A) (R C : list Z) : A :=
  match R with
  | [] => one
  | r0 :: R' =>
      lap_sum (length C) (fun k => mul (mul (sgn k) (Uf r0 (nth k C 0))) (lminor Uf R' (del_nth k C)))
  end.

(* generic variant *)
Definition laplace_entry (U prev : list (list A)) (d : Z) (n : nat) (R C : list Z) : A :=
  let r0 := hd 0 R in
  let dri := f_subspace_index_fq (tl R) d in
  lap_sum n (fun k => mul (mul (sgn k) (mget U r0 (nth k C 0)))
                          (mget prev dri (f_subspace_index_fq (del_nth k C) d))).

Definition rep_sector_generic (U : list (list A)) (d : Z) (n : nat) (prev : list (list A))
  : list (list A) :=
  let W := fq_walk d n in
  map (fun R => map (fun C => laplace_entry U prev d n R C) W) W.

(* numba variant with precalculated tables *)
Definition precalc (n : nat) (d : Z) : list (list Z) * list (list Z) :=
  let W := fq_walk d n in
  (map (fun X => map (fun k => nth k X 0) (seq 0 n)) W,
   map (fun X => map (fun k => f_subspace_index_fq (del_nth k X) d) (seq 0 n)) W).

Definition rep_sector_numba (U : list (list A)) (d : Z) (n : nat) (prev : list (list A))
  : list (list A) :=
  let '(lap, del) := precalc n d in
  let dim := length lap in
  map (fun row =>
         let mr := zmget lap row 0 in
         let dr := zmget del row 0 in
         map (fun col =>
                lap_sum n (fun k => mul (mul (sgn k) (mget U mr (zmget lap col k)))
                                        (mget prev dr (zmget del col k))))
             (seq 0 dim))
      (seq 0 dim).

Fixpoint reps_from (sector : nat -> list (list A) -> list (list A)) (count n : nat)
  (prev : list (list A)) : list (list (list A)) :=
  match count with
  | O => []
  | S c => let r := sector n prev in r :: reps_from sector c (S n) r
  end.

(* the list subspace_representations: [[1]], matrix, then sectors 2..cutoff-1 *)
Definition reps_with (sector : nat -> list (list A) -> list (list A)) (U : list (list A))
  (cutoff : nat) : list (list (list A)) :=
  match cutoff with
  | 1%nat => [[[one]]]
  | 0%nat | 2%nat => [[[one]]; U]
  | S (S c) => [[one]] :: U :: reps_from sector c 2 U
  end.

Definition reps_generic (U : list (list A)) (cutoff : nat) :=
  reps_with (rep_sector_generic U (Z.of_nat (length U))) U cutoff.
Definition reps_numba (U : list (list A)) (cutoff : nat) :=
  reps_with (rep_sector_numba U (Z.of_nat (length U))) U cutoff.

(* exact reference: matrix of minors in rank order *)
Definition minor_matrix (U : list (list A)) (n : nat) : list (list A) :=
  let d := Z.of_nat (length U) in
  let W := map to_fq (f_sector (length U) n) in
  map (fun R => map (fun C => lminor (mget U) R C) W) W.

(* ------------------------------------------------------------ state evolution *)
Definition sget (psi : list A) (i : Z) : A := nth (Z.to_nat i) psi zero.

Definition dot (row : list A) (v : list A) : A :=
  fold_left (fun s p => add s (mul (fst p) (snd p))) (combine row v) zero.

(* new_state_vector[indices] = representations[n] @ state_vector[indices] for every n *)
Definition apply_passive (rs : list (list (list A))) (idx : list (list (list Z)))
  (psi : list A) : list A :=
  fold_left
    (fun new ri =>
       let '(rep, ind) := ri in
       let naux := length (hd [] ind) in
       fold_left
         (fun new' ra =>
            let '(i, a) := ra in
            let col := map (fun indrow => sget psi (nth a indrow 0)) ind in
            zupd new' (nth a (nth i ind []) 0) (dot (nth i rep []) col))
         (list_prod (seq 0 (length ind)) (seq 0 naux)) new)
    (combine rs idx) (repeat zero (length psi)).

Inductive gate : Type :=
| GPassive (modes : list Z) (U : list (list A))
| GSqueezing2 (modes : list Z) (c s e ebar : A)   (* cos(r/2), sin(r/2), exp(i phi), exp(-i phi) *)
| GCPhase (modes : list Z) (e : A)                 (* exp(i phi) *)
| GIsingXX (modes : list Z) (c isn : A).           (* cos(phi), i sin(phi) *)

(* squeezing2: for each basis vector with both modes empty, rotate (psi_i, psi_j), j = both full *)
Definition apply_squeezing2 (d : nat) (cutoff : nat) (modes : list Z) (c s e ebar : A)
  (psi : list A) : list A :=
  let size := f_cutoff_dim (Z.of_nat d) (Z.of_nat cutoff) in
  let u00 := c in let u01 := mul s ebar in
  let u10 := opp (mul s e) in let u11 := c in
  fold_left
    (fun st io =>
       let '(i, occ) := io in
       if (nth (Z.to_nat (nth 0 modes 0)) occ 0 =? 0) && (nth (Z.to_nat (nth 1 modes 0)) occ 0 =? 0)
       then
         let j := f_index (scatter occ modes [1; 1]) in
         if j <? size then
           let a := sget st i in let b := sget st j in
           zupd (zupd st i (add (mul u00 a) (mul u01 b))) j (add (mul u10 a) (mul u11 b))
         else zupd st i (mul u00 (sget st i))
       else st)
    (combine (map Z.of_nat (seq 0 (Z.to_nat size))) (sq_walk d size)) psi.

Definition apply_cphase (d : nat) (cutoff : nat) (modes : list Z) (e : A) (psi : list A) : list A :=
  fold_left (fun st i => zupd st i (mul e (sget psi i)))
            (cphase_indices d (Z.of_nat cutoff) modes) psi.

Definition apply_ising (d : nat) (cutoff : nat) (modes : list Z) (c isn : A) (psi : list A)
  : list A :=
  fold_left
    (fun st row =>
       let init := map (sget st) row in
       let fin := map (fun p => add (mul c (fst p)) (mul isn (snd p))) (combine init (rev init)) in
       fold_left (fun st' p => zupd st' (fst p) (snd p)) (combine row fin) st)
    (ising_indices d (Z.of_nat cutoff) modes) psi.

Definition apply_gate (d cutoff : nat) (g : gate) (psi : list A) : list A :=
  match g with
  | GPassive modes U =>
      apply_passive (reps_numba U cutoff) (interf_index_list modes d cutoff) psi
  | GSqueezing2 modes c s e ebar => apply_squeezing2 d cutoff modes c s e ebar psi
  | GCPhase modes e => apply_cphase d cutoff modes e psi
  | GIsingXX modes c isn => apply_ising d cutoff modes c isn psi
  end.

(* state_vector preparation with coefficient 1 on a zero vector *)
Definition prepare (d cutoff : nat) (occ : list Z) : list A :=
  zupd (repeat zero (Z.to_nat (f_cutoff_dim (Z.of_nat d) (Z.of_nat cutoff)))) (f_index occ) one.

Definition run_program (d cutoff : nat) (occ : list Z) (gs : list gate) : list A :=
  fold_left (fun psi g => apply_gate d cutoff g psi) gs (prepare d cutoff occ).

(* matrices: product and embedding, for the exact reference of passive programs *)
Definition mat_mul (X Y : list (list A)) : list (list A) :=
  let n := length Y in
  map (fun row => map (fun j => dot row (map (fun yr => nth j yr zero) Y))
                      (seq 0 (length (hd [] Y)))) X.

Definition embed (d : nat) (modes : list Z) (U : list (list A)) : list (list A) :=
  map (fun i => map (fun j =>
       match find (fun p => snd p =? Z.of_nat i) (combine (seq 0 (length modes)) modes),
             find (fun p => snd p =? Z.of_nat j) (combine (seq 0 (length modes)) modes) with
       | Some (a, _), Some (b, _) => nth b (nth a U []) zero
       | None, None => if Nat.eqb i j then one else zero
       | _, _ => zero
       end) (seq 0 d)) (seq 0 d).

End Ring.

Arguments GPassive {A}.
Arguments GSqueezing2 {A}.
Arguments GCPhase {A}.
Arguments GIsingXX {A}.

(* ---------------------------------------------------------------- Gaussian rationals *)
Definition Qi : Type := (Q * Q)%type.
Definition qi0 : Qi := (0%Q, 0%Q).
Definition qi1 : Qi := (1%Q, 0%Q).
Definition qi_add (x y : Qi) : Qi := (Qred (fst x + fst y), Qred (snd x + snd y)).
Definition qi_mul (x y : Qi) : Qi :=
  (Qred (fst x * fst y - snd x * snd y), Qred (fst x * snd y + snd x * fst y)).
Definition qi_opp (x : Qi) : Qi := (Qopp (fst x), Qopp (snd x)).
Definition qi_norm2 (x : Qi) : Q := Qred (fst x * fst x + snd x * snd x).

Definition qi_reps_generic := reps_generic Qi qi0 qi1 qi_add qi_mul qi_opp.
Definition qi_reps_numba := reps_numba Qi qi0 qi1 qi_add qi_mul qi_opp.
Definition qi_minor_matrix := minor_matrix Qi qi0 qi1 qi_add qi_mul qi_opp.
Definition qi_run := run_program Qi qi0 qi1 qi_add qi_mul qi_opp.
Definition qi_lminor := lminor Qi qi0 qi1 qi_add qi_mul qi_opp.
Definition qi_mget := mget Qi qi0.
Definition qi_mat_mul := mat_mul Qi qi0 qi_add qi_mul.
Definition qi_embed := embed Qi qi0 qi1.
Definition qi_identity (d : nat) : list (list Qi) := qi_embed d [] [].

(* total unitary of a passive program: later gates multiply on the left *)
Definition qi_total_unitary (d : nat) (gs : list (list Z * list (list Qi))) : list (list Qi) :=
  fold_left (fun T g => qi_mat_mul (qi_embed d (fst g) (snd g)) T) gs (qi_identity d).

(* amplitude of every basis vector (in basis order) after a passive program on input occ *)
Definition qi_minor_amplitudes (d : nat) (occ : list Z) (T : list (list Qi)) : list Qi :=
  map (fun out => if Z.of_nat (length (to_fq out)) =? Z.of_nat (length (to_fq occ))
                  then qi_lminor (qi_mget T) (to_fq out) (to_fq occ) else qi0)
      (f_basis_spec d (S d)).

Definition probabilities (psi : list Qi) : list Q := map qi_norm2 psi.
Definition qsum (l : list Q) : Q := Qred (fold_left Qplus l 0%Q).

(* comparison of an exact value with a float of the implementation (given as a rational) *)
Definition q_close (tol : Q) (x f : Q) : bool :=
  Qle_bool (Qabs (x - f)) (tol * (1 + Qabs x)).
Definition qi_close (tol : Q) (x f : Qi) : bool :=
  q_close tol (fst x) (fst f) && q_close tol (snd x) (snd f).
Fixpoint all2 {T S} (p : T -> S -> bool) (l1 : list T) (l2 : list S) : bool :=
  match l1, l2 with
  | [], [] => true
  | a :: r1, b :: r2 => p a b && all2 p r1 r2
  | _, _ => false
  end.
Definition qil_close tol := all2 (qi_close tol).
Definition qill_close tol := all2 (qil_close tol).
Definition qilll_close tol := all2 (qill_close tol).
Definition ql_close tol := all2 (q_close tol).
