(* GENERATED on every run by harness/props/c20.py (translate) from the tables of
   piquasso/core/_expressions.py — do not edit. *)
From Coq Require Import List.
From PV Require Import C20.Ast.
Import ListNotations.
Definition BINOPS : list (binop * opfun) := [(Add, op_add); (Sub, op_sub); (Mult, op_mul); (Div, op_truediv); (Mod, op_mod); (Pow, op_pow); (BitXor, op_xor)].
Definition UNARYOPS : list (unaryop * opfun) := [(UAdd, op_pos); (USub, op_neg); (Not, op_not)].
Definition BOOLOPS : list (boolop * opfun) := [(And, bi_all); (Or, bi_any)].
Definition CMPOPS : list (cmpop * opfun) := [(Eq, op_eq); (NotEq, op_ne); (Lt, op_lt); (LtE, op_le); (Gt, op_gt); (GtE, op_ge)].
Definition ALLOWED : list cls :=
  [KExpression; KBoolOp; KUnaryOp; KBinOp; KCompare; KName; KCtx Load; KSubscript; KSlice; KConstant; KList; KTuple; KOther OIndex]
  ++ map KBin (map fst BINOPS)
  ++ map KUn (map fst UNARYOPS)
  ++ map KBool (map fst BOOLOPS)
  ++ map KCmp (map fst CMPOPS).
