(* C03 - executable model of the branch executor of piquasso/api/simulator.py, of
   api/result.py (samples, get_counts, outcome_map) and of the frequency binning in
   piquasso/_utils.py and _simulators/simulation_steps.py.
   Definitions only.  Modes (labels and positions) are [nat]; frequencies are exact [Q]
   (Python [Fraction]); a simulation step seen from the executor is a Section variable. *)
From Coq Require Import ZArith QArith List Bool Arith.
Import ListNotations.
Open Scope Z_scope.

(* ------------------------------------------------------------------ small utilities *)
Fixpoint sumZ (l : list Z) : Z := match l with [] => 0 | a :: r => a + sumZ r end.
Fixpoint sumQ (l : list Q) : Q := match l with [] => 0%Q | a :: r => (a + sumQ r)%Q end.

Fixpoint memb (m : nat) (l : list nat) : bool :=
  match l with [] => false | a :: r => if Nat.eqb a m then true else memb m r end.

(* tuple.index *)
Fixpoint index_of (m : nat) (l : list nat) : nat :=
  match l with [] => 0%nat | a :: r => if Nat.eqb a m then 0%nat else S (index_of m r) end.

(* int(Fraction): truncation towards zero *)
Definition Qtrunc (q : Q) : Z := Z.quot (Qnum q) (Z.pos (Qden q)).

(* ------------------------------------------------------------------ active modes *)
(* api/simulator.py:Simulator._remap_modes *)
Definition remap_modes (active ms : list nat) : list nat := map (fun m => index_of m active) ms.
(* api/simulator.py:Simulator._remap_modes_inverse *)
Definition remap_modes_inverse (active ps : list nat) : list nat := map (fun p => nth p active 0%nat) ps.
(* api/simulator.py:Simulator._delete_modes_from_active *)
Definition delete_modes_from_active (active ps : list nat) : list nat :=
  filter (fun m => negb (memb m (remap_modes_inverse active ps))) active.

(* ------------------------------------------------------------------ results *)
Inductive error :=
| EInactiveModes      (* InactiveModes(InvalidModes, ValueError): modes already measured *)
| ECondition          (* PiquassoException: the condition raised *)
| EShotsNone          (* InvalidParameter: measurement does not support shots=None *)
| EStep (code : Z).   (* whatever the simulation step (or parameter resolution) raised *)

Inductive res (A : Type) := Ok (a : A) | Err (e : error).
Arguments Ok {A} a.
Arguments Err {A} e.

Section Executor.
  (* St: simulator state; Ins: instruction; Out: one entry of an outcome tuple *)
  Variables (St Ins Out : Type).

  (* api/branch.py:Branch, plus a ghost field: the original labels of the modes the
     branch state is still defined on (the implementation has state.d = length b_reg) *)
  Record branch := mkB { b_state : St; b_out : list Out; b_freq : Q; b_reg : list nat }.
  (* what a simulation step returns: Branch(state, outcome, frequency) *)
  Record sub := mkSub { s_state : St; s_out : list Out; s_freq : Q }.

  Variable modes_of : Ins -> list nat.          (* instruction.modes as registered ([] = all) *)
  Variable is_meas : Ins -> bool.               (* isinstance(instruction, Measurement) *)
  Variable none_ok : Ins -> bool.               (* in _measurement_classes_allowed_with_shots_none *)
  Variable cond_of : Ins -> list Out -> option bool.   (* _is_condition_met; None = raises *)
  (* the simulation step, after _resolve_params(outcomes): state, instruction, remapped
     modes, outcome tuple of the branch (parameters may depend on it), shots *)
  Variable step : St -> Ins -> list nat -> list Out -> option Z -> res (list sub).

  (* int(branch.frequency * shots) *)
  Definition shots_of (N : Z) (f : Q) : Z := Qtrunc (f * inject_Z N).

  (* api/simulator.py:_apply_instruction_to_branches, body of the loop *)
  Definition apply_branch (i : Ins) (ms : list nat) (shots : option Z) (b : branch)
    : res (list branch) :=
    match cond_of i (b_out b) with
    | None => Err ECondition
    | Some false => Ok [b]
    | Some true =>
        let cur := match shots with Some n => Some (shots_of n (b_freq b)) | None => None end in
        match step (b_state b) i ms (b_out b) cur with
        | Err e => Err e
        | Ok subs =>
            Ok (map (fun s => mkB (s_state s) (b_out b ++ s_out s) (s_freq s * b_freq b)
                                (if is_meas i then delete_modes_from_active (b_reg b) ms
                                 else b_reg b)) subs)
        end
    end.

  Fixpoint apply_all (i : Ins) (ms : list nat) (shots : option Z) (bs : list branch)
    : res (list branch) :=
    match bs with
    | [] => Ok []
    | b :: r =>
        match apply_branch i ms shots b with
        | Err e => Err e
        | Ok l1 => match apply_all i ms shots r with
                   | Err e => Err e
                   | Ok l2 => Ok (l1 ++ l2)
                   end
        end
    end.

  (* api/simulator.py:_apply_instruction_to_branches *)
  Definition apply_instruction (i : Ins) (ms : list nat) (shots : option Z) (bs : list branch)
    : res (list branch) :=
    match shots with
    | None => if is_meas i && negb (none_ok i) then Err EShotsNone else apply_all i ms shots bs
    | Some _ => apply_all i ms shots bs
    end.

  (* api/simulator.py:_do_execute_instructions, the loop; the executor keeps ONE tuple of
     active modes for all branches *)
  Fixpoint exec (prog : list Ins) (shots : option Z) (active : list nat) (bs : list branch)
    : res (list nat * list branch) :=
    match prog with
    | [] => Ok (active, bs)
    | i :: rest =>
        let ms := match modes_of i with [] => active | l => l end in
        if forallb (fun m => memb m active) ms then
          let ps := remap_modes active ms in
          match apply_instruction i ps shots bs with
          | Err e => Err e
          | Ok bs' =>
              exec rest shots
                   (if is_meas i then delete_modes_from_active active ps else active) bs'
          end
        else Err EInactiveModes
    end.

  Definition initial (s0 : St) (d : nat) : list branch := [mkB s0 [] 1%Q (seq 0 d)].

  (* api/simulator.py:_validate_active_modes (repaired executor: run before any evolution).
     The modes a measurement removes do not depend on outcomes, so the walk over the
     register is done beforehand; an instruction without modes addresses all active modes
     (the NUMBER_OF_MODES test for that case is not modelled: C13) *)
  Fixpoint validate_active (prog : list Ins) (active : list nat) : bool :=
    match prog with
    | [] => true
    | i :: rest =>
        let ms := modes_of i in
        forallb (fun m => memb m active) ms &&
        validate_active rest
          (if is_meas i
           then match ms with [] => [] | _ => filter (fun m => negb (memb m ms)) active end
           else active)
    end.

  (* api/simulator.py:_validate_shots_none_support (before any evolution) *)
  Definition shots_none_supported (prog : list Ins) (shots : option Z) : bool :=
    match shots with
    | Some _ => true
    | None => negb (existsb (fun i => is_meas i && negb (none_ok i)) prog)
    end.

  (* api/simulator.py:execute_instructions after the repair: validation first (an invalid
     program raises before any simulation step runs), then the loop *)
  Definition execute (prog : list Ins) (shots : option Z) (s0 : St) (d : nat) :=
    if negb (validate_active prog (seq 0 d)) then Err EInactiveModes
    else if negb (shots_none_supported prog shots) then Err EShotsNone
    else exec prog shots (seq 0 d) (initial s0 d).

  (* ---------------------------------------------------------------- api/result.py *)
  (* Result.samples before the shuffle: [outcome] * int(frequency * shots) per branch *)
  Definition samples_pre (N : Z) (bs : list branch) : list (list Out) :=
    flat_map (fun b => repeat (b_out b) (Z.to_nat (shots_of N (b_freq b)))) bs.

  Variable key_eqb : list Out -> list Out -> bool.    (* tuple equality used by dict *)

  (* a Python dict as an insertion-ordered association list *)
  Fixpoint dict_set {V} (k : list Out) (v : V) (d : list (list Out * V)) : list (list Out * V) :=
    match d with
    | [] => [(k, v)]
    | (k', v') :: r => if key_eqb k' k then (k', v) :: r else (k', v') :: dict_set k v r
    end.
  Fixpoint dict_add (k : list Out) (v : Z) (d : list (list Out * Z)) : list (list Out * Z) :=
    match d with
    | [] => [(k, v)]
    | (k', v') :: r => if key_eqb k' k then (k', v' + v) :: r else (k', v') :: dict_add k v r
    end.

  (* Result.get_counts as found at the pinned commit: ret[outcome] = int(freq*shots) *)
  Definition get_counts_overwrite (N : Z) (bs : list branch) : list (list Out * Z) :=
    fold_left (fun d b => dict_set (b_out b) (shots_of N (b_freq b)) d) bs [].
  (* Result.get_counts after fixes/C03-get-counts-duplicate-outcomes.diff:
     ret[outcome] = ret.get(outcome, 0) + int(freq*shots) *)
  Definition get_counts (N : Z) (bs : list branch) : list (list Out * Z) :=
    fold_left (fun d b => dict_add (b_out b) (shots_of N (b_freq b)) d) bs [].
  (* Result.outcome_map (frequency part): dict comprehension, last branch wins *)
  Definition outcome_map (bs : list branch) : list (list Out * Q) :=
    fold_left (fun d b => dict_set (b_out b) (b_freq b) d) bs [].

  (* ---------------------------------------------------------------- oracles of the simulators *)
  (* _utils.py:get_counts *)
  Definition bin (samples : list (list Out)) : list (list Out * Z) :=
    fold_left (fun d s => dict_add s 1 d) samples [].
  Definition frac (c k : Z) : Q := (inject_Z c / inject_Z k)%Q.
  (* _utils.py:sample_from_probability_map with shots = k, where [samples] is what
     random.choices returned: one branch per distinct outcome, Fraction(multiplicity, k) *)
  Definition binning_freqs (samples : list (list Out)) (k : Z) : list (list Out * Q) :=
    map (fun p => (fst p, frac (snd p) k)) (bin samples).
  (* Gaussian particle-number / threshold / general-dyne steps: one branch per shot *)
  Definition per_sample_freqs (samples : list (list Out)) (k : Z) : list (list Out * Q) :=
    map (fun s => (s, frac 1 k)) samples.
  (* _simulators/simulation_steps.py:_get_imperfect_branch_frequencies, finite shots:
     multiplicity = (frequency*shots).numerator, then Fraction(count, shots) per detected
     outcome, [detected] being what _sample_detected_outcomes returned *)
  Definition imperfect_multiplicity (f : Q) (k : Z) : Z := Qnum (Qred (f * inject_Z k)).
  Definition imperfect_freqs (detected : list (list Out * Z)) (k : Z) : list (list Out * Q) :=
    map (fun p => (fst p, frac (snd p) k)) detected.
End Executor.

Arguments mkB {St Out}.
Arguments mkSub {St Out}.
Arguments b_state {St Out}.
Arguments b_out {St Out}.
Arguments b_freq {St Out}.
Arguments b_reg {St Out}.
Arguments s_state {St Out}.
Arguments s_out {St Out}.
Arguments s_freq {St Out}.
