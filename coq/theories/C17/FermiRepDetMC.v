(* C17 - the sector representations of both code variants are MathComp determinants of the
   restricted matrix (compound matrix), over every commutative ring, for all d, cutoff, n. *)
From mathcomp Require Import all_ssreflect all_algebra.
From PV Require C17.FermiRepModel C17.FermiWalkProofs C17.FermiRepProofs C17.FermiDetMC.

Set Implicit Arguments.
Unset Strict Implicit.
Unset Printing Implicit Defensive.

Import GRing.Theory.
Local Open Scope ring_scope.

Definition mc_mget (R : comRingType) := FermiRepModel.mget R 0.
Definition mc_reps_generic (R : comRingType) := FermiRepModel.reps_generic R 0 1 +%R *%R -%R.
Definition mc_reps_numba (R : comRingType) := FermiRepModel.reps_numba R 0 1 +%R *%R -%R.

(* det of U restricted to rows rs and columns cs (index lists of length n) *)
Definition det_restricted (R : comRingType) (Uf : BinNums.Z -> BinNums.Z -> R) (n : nat)
  (rs cs : seq BinNums.Z) : R :=
  \det (\matrix_(i < n, j < n) Uf (nth BinNums.Z0 rs i) (nth BinNums.Z0 cs j)).

Definition mc_lminor (R : comRingType) := FermiRepModel.lminor R 0 1 +%R *%R -%R.

Theorem mc_lminor_det (R : comRingType) n (Uf : BinNums.Z -> BinNums.Z -> R) (rs cs : seq BinNums.Z) :
  size rs = n -> size cs = n -> mc_lminor Uf rs cs = det_restricted Uf n rs cs.
Proof. exact: FermiDetMC.lminor_det. Qed.

Theorem fermi_rep_is_det (R : comRingType) (U : seq (seq R)) cutoff n (rs cs : seq BinNums.Z) :
  (n < cutoff)%coq_nat ->
  FermiRepProofs.valid (List.length U) n rs -> FermiRepProofs.valid (List.length U) n cs ->
  mc_mget (List.nth n (mc_reps_generic U cutoff) nil)
          (FermiRepProofs.rank (List.length U) rs) (FermiRepProofs.rank (List.length U) cs)
  = det_restricted (mc_mget U) n rs cs.
Proof.
move=> Hn Hr Hc.
rewrite /mc_mget /mc_reps_generic.
rewrite (@FermiRepProofs.reps_generic_minor R 0 1 +%R *%R -%R
           (@add0r R) (@mul1r R) (@mulr1 R) U cutoff n Hn rs cs Hr Hc).
by apply: FermiDetMC.lminor_det; rewrite -FermiDetMC.lengthE; [case: Hr | case: Hc].
Qed.

Theorem fermi_rep_numba_is_det (R : comRingType) (U : seq (seq R)) cutoff n (rs cs : seq BinNums.Z) :
  (n < cutoff)%coq_nat ->
  FermiRepProofs.valid (List.length U) n rs -> FermiRepProofs.valid (List.length U) n cs ->
  mc_mget (List.nth n (mc_reps_numba U cutoff) nil)
          (FermiRepProofs.rank (List.length U) rs) (FermiRepProofs.rank (List.length U) cs)
  = det_restricted (mc_mget U) n rs cs.
Proof.
move=> Hn Hr Hc.
rewrite /mc_reps_numba FermiRepProofs.variants_agree.
exact: fermi_rep_is_det.
Qed.
