(* C09 -- list lemmas used by the connector proofs (functional update, map2/map3, nth). *)
From Coq Require Import List Arith Lia.
From PV Require Import C09.ConnModel.
Import ListNotations.

Lemma upd_length : forall B (l : list B) k x, length (upd l k x) = length l.
Proof. induction l; destruct k; simpl; intros; auto. Qed.

Lemma nth_upd_eq : forall B (l : list B) k x d, k < length l -> nth k (upd l k x) d = x.
Proof. induction l; destruct k; simpl; intros; try lia; auto. apply IHl. lia. Qed.

Lemma nth_upd_neq : forall B (l : list B) k k' x d, k <> k' -> nth k' (upd l k x) d = nth k' l d.
Proof.
  induction l; destruct k; destruct k'; simpl; intros; try lia; auto.
Qed.

Lemma upd_out_of_range : forall B (l : list B) k x, length l <= k -> upd l k x = l.
Proof. induction l; destruct k; simpl; intros; try lia; auto. f_equal. apply IHl. lia. Qed.

Lemma upd_many_length : forall B kx (l : list B), length (upd_many l kx) = length l.
Proof.
  unfold upd_many. induction kx; simpl; intros; auto. rewrite IHkx. apply upd_length.
Qed.

(* frame: a position that is not written keeps its value *)
Lemma upd_many_frame : forall B kx (l : list B) k d,
  ~ In k (map fst kx) -> nth k (upd_many l kx) d = nth k l d.
Proof.
  unfold upd_many. induction kx as [|[k0 x0] kx IH]; simpl; intros; auto.
  rewrite IH by tauto. apply nth_upd_neq. tauto.
Qed.

(* get after set: the last write to a position is what is read there *)
Lemma upd_many_last : forall B pre post k x (l : list B) d,
  k < length l -> ~ In k (map fst post) ->
  nth k (upd_many l (pre ++ (k, x) :: post)) d = x.
Proof.
  intros. unfold upd_many. rewrite fold_left_app. simpl.
  fold (upd_many (upd (fold_left (fun acc p => upd acc (fst p) (snd p)) pre l) k x) post).
  rewrite upd_many_frame by auto. apply nth_upd_eq.
  fold (upd_many l pre). rewrite upd_many_length. auto.
Qed.

Lemma map2_length : forall X Y W (f : X -> Y -> W) a b,
  length (map2 f a b) = Nat.min (length a) (length b).
Proof. induction a; destruct b; simpl; auto. Qed.

Lemma nth_map2 : forall X Y W (f : X -> Y -> W) a b i dx dy dw,
  i < length a -> i < length b -> nth i (map2 f a b) dw = f (nth i a dx) (nth i b dy).
Proof.
  induction a; destruct b; destruct i; simpl; intros; try lia; auto. apply IHa; lia.
Qed.

Lemma map3_length : forall X Y Z W (f : X -> Y -> Z -> W) a b c n,
  length a = n -> length b = n -> length c = n -> length (map3 f a b c) = n.
Proof.
  induction a; destruct b; destruct c; simpl; intros; subst; try discriminate; auto.
Qed.

Lemma nth_map3 : forall X Y Z W (f : X -> Y -> Z -> W) a b c i dx dy dz dw,
  i < length a -> i < length b -> i < length c ->
  nth i (map3 f a b c) dw = f (nth i a dx) (nth i b dy) (nth i c dz).
Proof.
  induction a; destruct b; destruct c; destruct i; simpl; intros; try lia; auto.
  apply IHa; lia.
Qed.

Lemma nth_map_seq : forall W (g : nat -> W) n i d, i < n -> nth i (map g (seq 0 n)) d = g i.
Proof.
  intros. rewrite nth_indep with (d' := g 0) by (rewrite map_length, seq_length; auto).
  rewrite map_nth, seq_nth; auto.
Qed.

Lemma map3_seq : forall X Y Z W (f : X -> Y -> Z -> W) a b c n dx dy dz,
  length a = n -> length b = n -> length c = n ->
  map3 f a b c = map (fun j => f (nth j a dx) (nth j b dy) (nth j c dz)) (seq 0 n).
Proof.
  intros.
  apply nth_ext with (d := f dx dy dz) (d' := f dx dy dz).
  - rewrite map_length, seq_length. apply map3_length; auto.
  - intros i Hi. rewrite (map3_length _ _ _ _ f a b c n) in Hi by auto.
    rewrite nth_map_seq by auto.
    apply nth_map3; lia.
Qed.

Lemma nth_map_in : forall X W (g : X -> W) l i dx dw, i < length l -> nth i (map g l) dw = g (nth i l dx).
Proof.
  intros. rewrite nth_indep with (d' := g dx) by (rewrite map_length; auto). apply map_nth.
Qed.

Lemma Forall_nth_len : forall B (P : B -> Prop) l i d, Forall P l -> i < length l -> P (nth i l d).
Proof. intros. rewrite Forall_forall in H. apply H. apply nth_In. auto. Qed.
