(* C20 — theorems about the model of ExprModel.v, for every tree, every outcome value and
   every semantics of the primitive operations.  Re-proved against WhitelistGen.v (regenerated
   from piquasso/core/_expressions.py on every run). *)
From Coq Require Import ZArith List String Bool Lia.
From PV Require Import C20.Ast C20.WhitelistGen C20.ExprModel.
Import ListNotations.
Open Scope string_scope.

(* ------------------------------------------------------------------ induction on trees *)
Section ExprInd.
  Variable P : expr -> Prop.
  Hypothesis HConst : forall c, P (Constant c).
  Hypothesis HName : forall id cx, P (Name id cx).
  Hypothesis HTuple : forall es cx, Forall P es -> P (Tuple es cx).
  Hypothesis HList : forall es cx, Forall P es -> P (EList es cx).
  Hypothesis HUn : forall op e, P e -> P (UnaryOp op e).
  Hypothesis HBin : forall l op r, P l -> P r -> P (BinOp l op r).
  Hypothesis HBool : forall op es, Forall P es -> P (BoolOp op es).
  Hypothesis HCmp : forall l ops es, P l -> Forall P es -> P (Compare l ops es).
  Hypothesis HSub : forall v s cx, P v -> P s -> P (Subscript v s cx).
  Hypothesis HSlice : forall lo up st, OptP P lo -> OptP P up -> OptP P st -> P (Slice lo up st).
  Hypothesis HOther : forall k ch, Forall P ch -> P (Other k ch).

  Fixpoint expr_ind' (t : expr) : P t :=
    let all := fix all (l : list expr) : Forall P l :=
      match l with
      | [] => Forall_nil P
      | e :: r => Forall_cons e (expr_ind' e) (all r)
      end in
    let opt := fun o : option expr =>
      match o return OptP P o with
      | None => OptP_none P
      | Some e => OptP_some P e (expr_ind' e)
      end in
    match t with
    | Constant c => HConst c
    | Name id cx => HName id cx
    | Tuple es cx => HTuple es cx (all es)
    | EList es cx => HList es cx (all es)
    | UnaryOp op e => HUn op e (expr_ind' e)
    | BinOp l op r => HBin l op r (expr_ind' l) (expr_ind' r)
    | BoolOp op es => HBool op es (all es)
    | Compare l ops es => HCmp l ops es (expr_ind' l) (all es)
    | Subscript v s cx => HSub v s cx (expr_ind' v) (expr_ind' s)
    | Slice lo up st => HSlice lo up st (opt lo) (opt up) (opt st)
    | Other k ch => HOther k ch (all ch)
    end.
End ExprInd.

(* ------------------------------------------------------------------ the whitelist, as generated *)

(* What the property's text allows, written by hand; the lemmas below compare the generated
   tables with it by computation, so a change of the tables in the source breaks them. *)
Definition expected_allowed (k : cls) : bool :=
  match k with
  | KExpression | KBoolOp | KUnaryOp | KBinOp | KCompare | KName | KSubscript | KSlice
  | KConstant | KList | KTuple => true
  | KOther OIndex => true     (* the class exists in 3.12; the parser never instantiates it *)
  | KOther _ => false
  | KBin o => existsb (binop_eqb o) grammar_binops
  | KUn o => existsb (unaryop_eqb o) grammar_unaryops
  | KBool _ => true
  | KCmp o => existsb (cmpop_eqb o) grammar_cmpops
  | KCtx Load => true
  | KCtx _ => false
  end.

Lemma whitelist_is_expected : forall k, allowed k = expected_allowed k.
Proof.
  destruct k as [ | | | | | | | | | | | o | o | o | o | o | c ];
    try destruct o; try destruct c; reflexivity.
Qed.

Lemma binops_table : forall o,
  assoc binop_eqb o BINOPS =
  if existsb (binop_eqb o) grammar_binops then Some (spec_binop o) else None.
Proof. destruct o; reflexivity. Qed.
Lemma unaryops_table : forall o,
  assoc unaryop_eqb o UNARYOPS =
  if existsb (unaryop_eqb o) grammar_unaryops then Some (spec_unaryop o) else None.
Proof. destruct o; reflexivity. Qed.
Lemma cmpops_table : forall o,
  assoc cmpop_eqb o CMPOPS =
  if existsb (cmpop_eqb o) grammar_cmpops then Some (spec_cmpop o) else None.
Proof. destruct o; reflexivity. Qed.

Lemma in_binops : forall o, existsb (binop_eqb o) grammar_binops = true <-> In o grammar_binops.
Proof. destruct o; simpl; split; intros; try discriminate; try tauto;
       repeat match goal with H : _ \/ _ |- _ => destruct H end; try discriminate; tauto. Qed.
Lemma in_unaryops : forall o, existsb (unaryop_eqb o) grammar_unaryops = true <-> In o grammar_unaryops.
Proof. destruct o; simpl; split; intros; try discriminate; try tauto;
       repeat match goal with H : _ \/ _ |- _ => destruct H end; try discriminate; tauto. Qed.
Lemma in_cmpops : forall o, existsb (cmpop_eqb o) grammar_cmpops = true <-> In o grammar_cmpops.
Proof. destruct o; simpl; split; intros; try discriminate; try tauto;
       repeat match goal with H : _ \/ _ |- _ => destruct H end; try discriminate; tauto. Qed.

(* ------------------------------------------------------------------ small list facts *)
Lemma Forall_forallb_2 : forall (Q : position -> expr -> Prop) (f : position -> expr -> bool) g es q,
  Forall (fun t => forall p, f p t = true -> g t = true -> Q p t) es ->
  forallb (f q) es = true -> forallb g es = true -> Forall (Q q) es.
Proof.
  induction es; intros q HF H1 H2; constructor; simpl in *;
    apply andb_true_iff in H1; apply andb_true_iff in H2; inversion HF; subst.
  - apply H3; tauto.
  - apply IHes; tauto.
Qed.

Lemma OptP_opt_all : forall (Q : position -> expr -> Prop) (f : position -> expr -> bool) g o q,
  OptP (fun t => forall p, f p t = true -> g t = true -> Q p t) o ->
  opt_all (f q) o = true -> opt_all g o = true -> OptP (Q q) o.
Proof. intros Q f g o q H H1 H2; inversion H; subst; constructor; simpl in *; auto. Qed.

Lemma Forall_to_forallb : forall (Q : position -> expr -> Prop) g es q,
  Forall (fun t => forall p, Q p t -> g t = true) es -> Forall (Q q) es -> forallb g es = true.
Proof.
  induction es; intros q HF HQ; simpl; auto. inversion HF; inversion HQ; subst.
  apply andb_true_iff; split; eauto.
Qed.
Lemma Forall_to_forallb_p : forall (Q : position -> expr -> Prop) (g : position -> expr -> bool) es q,
  Forall (fun t => forall p, Q p t -> g p t = true) es -> Forall (Q q) es -> forallb (g q) es = true.
Proof.
  induction es; intros q HF HQ; simpl; auto. inversion HF; inversion HQ; subst.
  apply andb_true_iff; split; eauto.
Qed.
Lemma OptP_to_opt_all : forall (Q : position -> expr -> Prop) g o q,
  OptP (fun t => forall p, Q p t -> g t = true) o -> OptP (Q q) o -> opt_all g o = true.
Proof. intros Q g o q H1 H2; inversion H1; subst; simpl; auto. inversion H2; subst; eauto. Qed.
Lemma OptP_to_opt_all_p : forall (Q : position -> expr -> Prop) (g : position -> expr -> bool) o q,
  OptP (fun t => forall p, Q p t -> g p t = true) o -> OptP (Q q) o -> opt_all (g q) o = true.
Proof. intros Q g o q H1 H2; inversion H1; subst; simpl; auto. inversion H2; subst; eauto. Qed.

(* ------------------------------------------------------------------ 1. validate accepts exactly the grammar *)

Ltac split_andb :=
  repeat match goal with
         | H : _ && _ = true |- _ => apply andb_true_iff in H; destruct H
         end.

Ltac ctx_load :=
  match goal with
  | H : allowed (KCtx ?c) = true |- _ =>
      rewrite whitelist_is_expected in H; destruct c; try discriminate H
  end.
Ltac allowed_simpl :=
  repeat match goal with
         | H : allowed _ = true |- _ => rewrite whitelist_is_expected in H; simpl in H
         end.

Lemma validate_in_grammar_at : forall t p,
  shape_at p t = true -> validate t = true -> InG p t.
Proof.
  induction t using expr_ind'; intros p Hs Hv; simpl in Hs, Hv; split_andb.
  - destruct c; try discriminate; constructor.
  - ctx_load.
    match goal with H : String.eqb _ _ = true |- _ => apply String.eqb_eq in H; subst end.
    constructor.
  - ctx_load. constructor. eapply Forall_forallb_2; eauto.
  - ctx_load. constructor. eapply Forall_forallb_2 with (q := PExpr); eauto.
  - allowed_simpl. constructor; auto. apply in_unaryops; auto.
  - allowed_simpl. constructor; auto. apply in_binops; auto.
  - constructor.
    + apply Nat.leb_le; auto.
    + eapply Forall_forallb_2 with (q := PExpr); eauto.
  - constructor; auto.
    + apply Nat.eqb_eq; auto.
    + apply Nat.leb_le; auto.
    + match goal with H : forallb (fun o => allowed (KCmp o)) ops = true |- _ =>
        clear - H; induction ops; constructor; simpl in H; split_andb; auto end.
      allowed_simpl. apply in_cmpops; auto.
    + eapply Forall_forallb_2 with (q := PExpr); eauto.
  - ctx_load. constructor; auto.
  - constructor; auto; eapply OptP_opt_all with (q := PExpr); eauto.
  - allowed_simpl. destruct k; simpl in *; discriminate.
Qed.

Lemma allowed_un : forall o, allowed (KUn o) = true <-> In o grammar_unaryops.
Proof. intro; rewrite whitelist_is_expected; apply in_unaryops. Qed.
Lemma allowed_bin : forall o, allowed (KBin o) = true <-> In o grammar_binops.
Proof. intro; rewrite whitelist_is_expected; apply in_binops. Qed.
Lemma allowed_cmp : forall o, allowed (KCmp o) = true <-> In o grammar_cmpops.
Proof. intro; rewrite whitelist_is_expected; apply in_cmpops. Qed.
Lemma allowed_bool : forall o, allowed (KBool o) = true.
Proof. destruct o; reflexivity. Qed.

Ltac and_split := repeat (apply andb_true_iff; split).

Lemma grammar_validates_at : forall t p, InG p t -> validate t = true.
Proof.
  induction t using expr_ind'; intros p HG; inversion HG; subst; simpl; and_split;
    try reflexivity; eauto.
  - eapply Forall_to_forallb; eauto.
  - eapply Forall_to_forallb; eauto.
  - apply allowed_un; auto.
  - apply allowed_bin; auto.
  - apply allowed_bool.
  - eapply Forall_to_forallb; eauto.
  - match goal with H : Forall (fun o => In o grammar_cmpops) ops |- _ =>
      clear - H; induction H; simpl; auto; and_split; auto; apply allowed_cmp; auto end.
  - eapply Forall_to_forallb; eauto.
  - eapply OptP_to_opt_all; eauto.
  - eapply OptP_to_opt_all; eauto.
  - eapply OptP_to_opt_all; eauto.
Qed.

Lemma grammar_shape_at : forall t p, InG p t -> shape_at p t = true.
Proof.
  induction t using expr_ind'; intros p HG; inversion HG; subst; cbn -[Nat.leb Nat.eqb];
    and_split; try reflexivity; eauto.
  - eapply Forall_to_forallb_p; eauto.
  - eapply Forall_to_forallb_p with (q := PExpr); eauto.
  - apply Nat.leb_le; auto.
  - eapply Forall_to_forallb_p with (q := PExpr); eauto.
  - apply Nat.eqb_eq; auto.
  - apply Nat.leb_le; auto.
  - eapply Forall_to_forallb_p with (q := PExpr); eauto.
  - eapply OptP_to_opt_all_p with (q := PExpr); eauto.
  - eapply OptP_to_opt_all_p with (q := PExpr); eauto.
  - eapply OptP_to_opt_all_p with (q := PExpr); eauto.
Qed.

Theorem validate_iff_grammar : forall t,
  shape t = true -> (validate t = true <-> InGrammar t).
Proof.
  intros t Hs; split.
  - apply validate_in_grammar_at; auto.
  - apply grammar_validates_at.
Qed.

Theorem grammar_accepted : forall t, InGrammar t -> validate_tree t = true /\ shape t = true.
Proof.
  intros t H; split.
  - unfold validate_tree. rewrite (grammar_validates_at _ _ H). reflexivity.
  - apply grammar_shape_at; auto.
Qed.

Theorem accepted_in_grammar : forall t,
  shape t = true -> validate_tree t = true -> InGrammar t.
Proof.
  intros t Hs Hv. unfold validate_tree in Hv. apply andb_true_iff in Hv.
  apply validate_in_grammar_at; tauto.
Qed.

(* operators and node classes outside the list are rejected, wherever they occur *)
Theorem rejected_operators : forall l r e es,
  (forall o, ~ In o grammar_binops -> validate (BinOp l o r) = false) /\
  (forall o, ~ In o grammar_unaryops -> validate (UnaryOp o e) = false) /\
  (forall o ops1 ops2, ~ In o grammar_cmpops -> validate (Compare l (ops1 ++ o :: ops2) es) = false).
Proof.
  intros; repeat split; intros o; intros; apply not_true_is_false; intro Hv;
    simpl in Hv; split_andb.
  - match goal with H : allowed (KBin o) = true |- _ => apply allowed_bin in H; contradiction end.
  - match goal with H : allowed (KUn o) = true |- _ => apply allowed_un in H; contradiction end.
  - match goal with H : forallb _ (ops1 ++ o :: ops2) = true |- _ =>
      rewrite forallb_app in H; simpl in H; split_andb end.
    match goal with H : allowed (KCmp o) = true |- _ => apply allowed_cmp in H; contradiction end.
Qed.

Theorem rejected_nodes : forall k ch id cx c,
  (k <> OIndex -> validate (Other k ch) = false) /\
  (id <> "x" -> validate (Name id cx) = false) /\
  (const_ok c = false -> validate (Constant c) = false).
Proof.
  intros; repeat split; intros; apply not_true_is_false; intro Hv; simpl in Hv; split_andb.
  - allowed_simpl. destruct k; simpl in *; try discriminate; contradiction.
  - match goal with H : String.eqb _ _ = true |- _ => apply String.eqb_eq in H end. contradiction.
  - congruence.
Qed.

(* ------------------------------------------------------------------ evaluation *)
Section EvalProofs.
  Variables (value exn : Type).
  Variable of_const : const -> value.
  Variables v_tuple v_list : list value -> value.
  Variable v_slice : value -> value -> value -> value.
  Variables v_none v_true v_false : value.
  Variable call : opfun -> list value -> pres value exn.
  Variable truth : value -> bool.
  Variable getitem : value -> value -> pres value exn.
  Variable name_error : exn.
  Variable x : value.

  Notation res := (res value exn).
  Notation pq := (pq_eval value exn of_const v_tuple v_list v_slice v_none v_true v_false
                          call truth getitem x).
  Notation py := (py_eval value exn of_const v_tuple v_list v_slice v_none
                          call truth getitem name_error x).
  Notation bind := (bind value exn).
  Notation lift := (lift value exn).
  Notation eval_list := (eval_list value exn).
  Notation eval_opt := (eval_opt value exn v_none).

  (* the loops of _eval and the chains of the specification, as standalone functions *)
  Fixpoint pq_and (result : value) (vs : list expr) : res :=
    match vs with
    | [] => Ok result
    | e :: rest => bind (pq e) (fun r => if negb (truth r) then Ok r else pq_and r rest)
    end.
  Fixpoint pq_or (result : value) (vs : list expr) : res :=
    match vs with
    | [] => Ok result
    | e :: rest => bind (pq e) (fun r => if truth r then Ok r else pq_or r rest)
    end.
  Fixpoint pq_cmp (left : value) (ops : list cmpop) (es : list expr) {struct es} : res :=
    match ops, es with
    | op :: ops', e :: es' =>
        bind (pq e) (fun right =>
          match assoc cmpop_eqb op CMPOPS with
          | None => Unsupported UnsCmp
          | Some fn =>
              bind (lift (call fn [left; right])) (fun c =>
                if negb (truth c) then Ok v_false else pq_cmp right ops' es')
          end)
    | _, _ => Ok v_true
    end.
  Definition py_chain (op : boolop) : list expr -> res :=
    fix chain (vs : list expr) : res :=
    match vs with
    | [] => NotPython
    | [last] => py PExpr last
    | a :: rest =>
        bind (py PExpr a) (fun va =>
          match op with
          | And => if truth va then chain rest else Ok va
          | Or => if truth va then Ok va else chain rest
          end)
    end.
  Fixpoint py_cmp (left : value) (ops : list cmpop) (es : list expr) {struct es} : res :=
    match ops, es with
    | [op], [b] => bind (py PExpr b) (fun vb => lift (call (spec_cmpop op) [left; vb]))
    | op :: ops', b :: es' =>
        bind (py PExpr b) (fun vb =>
          bind (lift (call (spec_cmpop op) [left; vb])) (fun c =>
            if truth c then py_cmp vb ops' es' else Ok c))
    | _, _ => NotPython
    end.

  Lemma pq_boolop_and : forall es, pq (BoolOp And es) = pq_and v_true es.
  Proof. reflexivity. Qed.
  Lemma pq_boolop_or : forall es, pq (BoolOp Or es) = pq_or v_false es.
  Proof. reflexivity. Qed.
  Lemma pq_compare : forall l ops es,
    pq (Compare l ops es) = bind (pq l) (fun left => pq_cmp left ops es).
  Proof. reflexivity. Qed.
  Lemma pq_unary : forall op e,
    pq (UnaryOp op e) = match assoc unaryop_eqb op UNARYOPS with
                        | None => Unsupported UnsUnary
                        | Some fn => bind (pq e) (fun v => lift (call fn [v]))
                        end.
  Proof. reflexivity. Qed.
  Lemma pq_binary : forall l op r,
    pq (BinOp l op r) = match assoc binop_eqb op BINOPS with
                        | None => Unsupported UnsBinary
                        | Some fn => bind (pq l) (fun a => bind (pq r) (fun b => lift (call fn [a; b])))
                        end.
  Proof. reflexivity. Qed.
  Lemma pq_cmp_cons : forall left op ops e es,
    pq_cmp left (op :: ops) (e :: es) =
    bind (pq e) (fun right =>
      match assoc cmpop_eqb op CMPOPS with
      | None => Unsupported UnsCmp
      | Some fn => bind (lift (call fn [left; right])) (fun c =>
                     if negb (truth c) then Ok v_false else pq_cmp right ops es)
      end).
  Proof. reflexivity. Qed.
  Lemma py_boolop : forall p op es, py p (BoolOp op es) = py_chain op es.
  Proof. reflexivity. Qed.
  Lemma py_compare : forall p l ops es,
    py p (Compare l ops es) = bind (py PExpr l) (fun left => py_cmp left ops es).
  Proof. reflexivity. Qed.

  Lemma eval_list_ext : forall (f g : expr -> res) es k,
    Forall (fun e => f e = g e) es -> eval_list f es k = eval_list g es k.
  Proof.
    induction es; intros k HF; simpl; auto. inversion HF; subst.
    rewrite H1. destruct (g a); simpl; auto.
  Qed.
  Lemma eval_opt_ext : forall (f g : expr -> res) o,
    OptP (fun e => f e = g e) o -> eval_opt f o = eval_opt g o.
  Proof. intros f g o H; inversion H; subst; simpl; auto. Qed.

  (* ---------------- 3. no accepted tree reaches an "Unsupported" branch *)
  Definition NoUns (r : res) : Prop := match r with Unsupported _ => False | _ => True end.

  Lemma NoUns_bind : forall r k, NoUns r -> (forall v, NoUns (k v)) -> NoUns (bind r k).
  Proof. intros r k H1 H2; destruct r; simpl in *; auto. Qed.
  Lemma NoUns_lift : forall p, NoUns (lift p).
  Proof. destruct p; simpl; auto. Qed.
  Lemma NoUns_eval_list : forall f es k,
    Forall (fun e => NoUns (f e)) es -> (forall vs, NoUns (k vs)) -> NoUns (eval_list f es k).
  Proof.
    induction es; intros k HF Hk; simpl; auto. inversion HF; subst.
    apply NoUns_bind; auto.
  Qed.
  Lemma NoUns_eval_opt : forall f o, OptP (fun e => NoUns (f e)) o -> NoUns (eval_opt f o).
  Proof. intros f o H; inversion H; subst; simpl; auto. Qed.

  Lemma Forall_inst : forall (Q : position -> expr -> Prop) (R : expr -> Prop) es q,
    Forall (fun t => forall p, Q p t -> R t) es -> Forall (Q q) es -> Forall R es.
  Proof.
    induction es; intros q H1 H2; constructor; inversion H1; inversion H2; subst; eauto.
  Qed.
  Lemma OptP_inst : forall (Q : position -> expr -> Prop) (R : expr -> Prop) o q,
    OptP (fun t => forall p, Q p t -> R t) o -> OptP (Q q) o -> OptP R o.
  Proof. intros Q R o q H1 H2; inversion H1; subst; constructor. inversion H2; subst; eauto. Qed.

  Lemma eval_total_at : forall t p, InG p t -> NoUns (pq t).
  Proof.
    induction t using expr_ind'; intros p HG; inversion HG; subst.
    - simpl; auto.
    - simpl; auto.
    - simpl; auto.
    - simpl; auto.
    - simpl. apply NoUns_eval_list. { eapply Forall_inst; eauto. } simpl; auto.
    - simpl. apply NoUns_eval_list. { eapply Forall_inst; eauto. } simpl; auto.
    - rewrite pq_unary, unaryops_table.
      match goal with H : In op grammar_unaryops |- _ => apply in_unaryops in H; rewrite H end.
      apply NoUns_bind; eauto. intros; apply NoUns_lift.
    - rewrite pq_binary, binops_table.
      match goal with H : In op grammar_binops |- _ => apply in_binops in H; rewrite H end.
      apply NoUns_bind; eauto. intros. apply NoUns_bind; eauto. intros; apply NoUns_lift.
    - assert (HF : Forall (fun e => NoUns (pq e)) es) by (eapply Forall_inst; eauto).
      destruct op.
      + rewrite pq_boolop_and. generalize v_true. clear - HF.
        induction HF; intros v; simpl; auto. apply NoUns_bind; auto.
        intros r; destruct (negb (truth r)); simpl; auto.
      + rewrite pq_boolop_or. generalize v_false. clear - HF.
        induction HF; intros v; simpl; auto. apply NoUns_bind; auto.
        intros r; destruct (truth r); simpl; auto.
    - assert (HF : Forall (fun e => NoUns (pq e)) es) by (eapply Forall_inst; eauto).
      rewrite pq_compare. apply NoUns_bind; eauto.
      match goal with H : Forall (fun o => In o grammar_cmpops) ops |- _ => revert H end.
      clear - HF. revert ops.
      induction HF; intros ops Hops left; destruct ops; try (simpl; exact I).
      inversion Hops; subst. rewrite pq_cmp_cons. apply NoUns_bind; auto. intros right.
      rewrite cmpops_table.
      match goal with H : In _ grammar_cmpops |- _ => apply in_cmpops in H; rewrite H end.
      apply NoUns_bind. { apply NoUns_lift. }
      intros cv; destruct (negb (truth cv)); simpl; auto.
    - (* Subscript: a key of the grammar is never an Index wrapper *)
      simpl. apply NoUns_bind; eauto. intros seq.
      assert (HK : NoUns (pq t2)) by eauto.
      destruct t2; try (apply NoUns_bind; [exact HK | intros; apply NoUns_lift]).
      inversion H4.
    - simpl. repeat (apply NoUns_bind; [apply NoUns_eval_opt; eapply OptP_inst; eauto | intros]).
      simpl; auto.
  Qed.


  (* ---------------- 2. on the grammar, _eval computes what the language reference says *)

  (* the only assumptions on the primitives: True and False have their truth values, and the
     six comparisons return True or False on the value domain (int, float, bool, tuple, list) *)
  Hypothesis truth_true : truth v_true = true.
  Hypothesis truth_false : truth v_false = false.
  Hypothesis cmp_bool : forall o a b c,
    In o grammar_cmpops -> call (spec_cmpop o) [a; b] = POk c -> c = v_true \/ c = v_false.

  Lemma and_agree : forall es,
    Forall (fun e => pq e = py PExpr e) es -> es <> [] ->
    forall init, pq_and init es = py_chain And es.
  Proof.
    induction es as [|a rest IH]; intros HF Hne init; [contradiction|].
    inversion HF; subst. cbn [pq_and]. rewrite H1. destruct rest as [|b rest'].
    - cbn [py_chain pq_and]. destruct (py PExpr a); simpl; auto. destruct (truth v); reflexivity.
    - change (py_chain And (a :: b :: rest'))
        with (bind (py PExpr a) (fun va => if truth va then py_chain And (b :: rest') else Ok va)).
      destruct (py PExpr a); simpl; auto. destruct (truth v); simpl; auto.
      refine (IH _ _ v); auto. discriminate.
  Qed.

  Lemma or_agree : forall es,
    Forall (fun e => pq e = py PExpr e) es -> es <> [] ->
    forall init, pq_or init es = py_chain Or es.
  Proof.
    induction es as [|a rest IH]; intros HF Hne init; [contradiction|].
    inversion HF; subst. cbn [pq_or]. rewrite H1. destruct rest as [|b rest'].
    - cbn [py_chain pq_or]. destruct (py PExpr a); simpl; auto. destruct (truth v); reflexivity.
    - change (py_chain Or (a :: b :: rest'))
        with (bind (py PExpr a) (fun va => if truth va then Ok va else py_chain Or (b :: rest'))).
      destruct (py PExpr a); simpl; auto. destruct (truth v); simpl; auto.
      refine (IH _ _ v); auto. discriminate.
  Qed.

  Lemma cmp_agree : forall es ops left,
    List.length ops = List.length es -> (1 <= List.length ops)%nat ->
    Forall (fun o => In o grammar_cmpops) ops ->
    Forall (fun e => pq e = py PExpr e) es ->
    pq_cmp left ops es = py_cmp left ops es.
  Proof.
    induction es as [|b es' IH]; intros ops left Hlen Hpos Hops HF.
    - destruct ops; simpl in *; lia.
    - destruct ops as [|op ops']; [simpl in Hpos; lia|].
      inversion Hops; subst. inversion HF; subst. rewrite pq_cmp_cons.
      rewrite cmpops_table.
      match goal with H : In op grammar_cmpops |- _ =>
        pose proof H as Hin; apply in_cmpops in H; rewrite H end.
      match goal with H : pq b = py PExpr b |- _ => rewrite H end.
      simpl in Hlen. injection Hlen as Hlen.
      destruct es' as [|b' es''].
      + destruct ops'; [|discriminate Hlen].
        cbn [py_cmp pq_cmp]. destruct (py PExpr b) as [vb| | |]; simpl; auto.
        destruct (call (spec_cmpop op) [left; vb]) as [cv|ex] eqn:Ec; simpl; auto.
        destruct (cmp_bool _ _ _ _ Hin Ec); subst;
          rewrite ?truth_true, ?truth_false; reflexivity.
      + destruct ops' as [|op' ops'']; [discriminate Hlen|].
        change (py_cmp left (op :: op' :: ops'') (b :: b' :: es''))
          with (bind (py PExpr b) (fun vb =>
                  bind (lift (call (spec_cmpop op) [left; vb])) (fun c =>
                    if truth c then py_cmp vb (op' :: ops'') (b' :: es'') else Ok c))).
        destruct (py PExpr b) as [vb| | |]; simpl; auto.
        destruct (call (spec_cmpop op) [left; vb]) as [cv|ex] eqn:Ec; simpl; auto.
        destruct (cmp_bool _ _ _ _ Hin Ec); subst;
          rewrite ?truth_true, ?truth_false; cbn [negb]; auto.
        refine (IH (op' :: ops'') vb _ _ _ _); auto. simpl; lia.
  Qed.

  Lemma Forall_inst2 : forall (Q : position -> expr -> Prop) (R : position -> expr -> Prop) es q,
    Forall (fun t => forall p, Q p t -> R p t) es -> Forall (Q q) es -> Forall (R q) es.
  Proof.
    induction es; intros q H1 H2; constructor; inversion H1; inversion H2; subst; eauto.
  Qed.
  Lemma OptP_inst2 : forall (Q : position -> expr -> Prop) (R : position -> expr -> Prop) o q,
    OptP (fun t => forall p, Q p t -> R p t) o -> OptP (Q q) o -> OptP (R q) o.
  Proof. intros Q R o q H1 H2; inversion H1; subst; constructor. inversion H2; subst; eauto. Qed.

  Lemma eval_agrees_at : forall t p, InG p t -> pq t = py p t.
  Proof.
    induction t using expr_ind'; intros p HG; inversion HG; subst.
    - reflexivity.
    - reflexivity.
    - reflexivity.
    - reflexivity.
    - cbn [pq_eval py_eval]. apply eval_list_ext.
      eapply Forall_inst2 with (R := fun q e => pq e = py q e); eauto.
    - cbn [pq_eval py_eval]. apply eval_list_ext.
      eapply Forall_inst2 with (R := fun q e => pq e = py q e) (q := PExpr); eauto.
    - rewrite pq_unary, unaryops_table.
      match goal with H : In op grammar_unaryops |- _ => apply in_unaryops in H; rewrite H end.
      cbn [py_eval]. erewrite IHt; eauto.
    - rewrite pq_binary, binops_table.
      match goal with H : In op grammar_binops |- _ => apply in_binops in H; rewrite H end.
      cbn [py_eval]. erewrite IHt1, IHt2; eauto.
    - assert (HF : Forall (fun e => pq e = py PExpr e) es).
      { eapply Forall_inst2 with (R := fun q e => pq e = py q e) (q := PExpr); eauto. }
      assert (Hne : es <> []) by (destruct es; simpl in *; [lia | discriminate]).
      rewrite py_boolop. destruct op.
      + rewrite pq_boolop_and. apply and_agree; auto.
      + rewrite pq_boolop_or. apply or_agree; auto.
    - assert (HF : Forall (fun e => pq e = py PExpr e) es).
      { eapply Forall_inst2 with (R := fun q e => pq e = py q e) (q := PExpr); eauto. }
      rewrite pq_compare, py_compare. erewrite IHt; eauto.
      destruct (py PExpr t); simpl; auto. apply cmp_agree; auto.
    - (* Subscript *)
      assert (HK : pq t2 = py PKey t2) by eauto.
      assert (HV : pq t1 = py PExpr t1) by eauto.
      cbn [py_eval]. rewrite <- HV, <- HK.
      destruct t2; try reflexivity.
      match goal with H : InG PKey (Other _ _) |- _ => inversion H end.
    - cbn [pq_eval py_eval].
      match goal with H : slice_ok p = true |- _ => rewrite H end.
      erewrite (eval_opt_ext pq (py PExpr) lo), (eval_opt_ext pq (py PExpr) up),
               (eval_opt_ext pq (py PExpr) st); eauto;
        eapply OptP_inst2 with (R := fun q e => pq e = py q e) (q := PExpr); eauto.
  Qed.
End EvalProofs.

(* ------------------------------------------------------------------ the statements, closed *)
Section Final.
  Variables (value exn : Type).
  Variable of_const : const -> value.
  Variables v_tuple v_list : list value -> value.
  Variable v_slice : value -> value -> value -> value.
  Variables v_none v_true v_false : value.
  Variable call : opfun -> list value -> pres value exn.
  Variable truth : value -> bool.
  Variable getitem : value -> value -> pres value exn.
  Variable name_error : exn.

  Notation pq_eval' := (pq_eval value exn of_const v_tuple v_list v_slice v_none v_true v_false
                                call truth getitem).
  Notation pq_call' := (pq_call value exn of_const v_tuple v_list v_slice v_none v_true v_false
                                call truth getitem).
  Notation pq_expression' := (pq_expression value exn of_const v_tuple v_list v_slice v_none
                                            v_true v_false call truth getitem).
  Notation py_eval' := (py_eval value exn of_const v_tuple v_list v_slice v_none
                                call truth getitem name_error).

  (* 3. an accepted expression never raises InvalidExpression("Unsupported ...") when called *)
  Theorem eval_total : forall body arg u,
    shape body = true -> validate_tree body = true -> pq_call' body arg <> Unsupported u.
  Proof.
    intros body arg u Hs Hv E. unfold pq_call in E.
    pose proof (eval_total_at value exn of_const v_tuple v_list v_slice v_none v_true v_false
                  call truth getitem
                  (match arg with Some v => v | None => v_tuple [] end) body PExpr
                  (accepted_in_grammar body Hs Hv)) as H.
    rewrite E in H. exact H.
  Qed.

  (* 2. on every accepted expression, Expression(src)(x) is what Python's evaluation rules give *)
  Theorem eval_agrees :
    truth v_true = true -> truth v_false = false ->
    (forall o a b c, In o grammar_cmpops -> call (spec_cmpop o) [a; b] = POk c ->
                     c = v_true \/ c = v_false) ->
    forall body x, InGrammar body -> pq_eval' x body = py_eval' x PExpr body.
  Proof.
    intros Ht Hf Hc body x HG.
    exact (eval_agrees_at value exn of_const v_tuple v_list v_slice v_none v_true v_false
             call truth getitem name_error x Ht Hf Hc body PExpr HG).
  Qed.

  Theorem call_agrees :
    truth v_true = true -> truth v_false = false ->
    (forall o a b c, In o grammar_cmpops -> call (spec_cmpop o) [a; b] = POk c ->
                     c = v_true \/ c = v_false) ->
    forall body x, shape body = true -> validate_tree body = true ->
                   pq_call' body (Some x) = py_eval' x PExpr body.
  Proof.
    intros Ht Hf Hc body x Hs Hv. unfold pq_call.
    apply eval_agrees; auto. apply accepted_in_grammar; auto.
  Qed.

  (* 4. rejection is decided on the tree alone: whatever the primitives and the outcome are,
     a rejected tree yields no callable, an accepted one yields one *)
  Theorem reject_no_eval : forall body,
    (validate_tree body = false -> pq_expression' body = None) /\
    (validate_tree body = true -> pq_expression' body = Some (pq_call' body)).
  Proof. intros body; unfold pq_expression; split; intros H; rewrite H; reflexivity. Qed.
End Final.
