(* C18 -- the preparation algebra is linear (repaired code), for every commutative ring of
   coefficients, every operand-kind combination and every expression tree; refutations for
   the code before the repair. *)
From Coq Require Import ZArith List Bool Lia Ring Permutation.
From PV Require Import C18.PrepModel.
Import ListNotations.

Lemma occ_eqb_eq : forall a b, occ_eqb a b = true -> a = b.
Proof.
  induction a; destruct b; simpl; intros H; try discriminate; auto.
  apply andb_prop in H. destruct H as [H1 H2]. apply Z.eqb_eq in H1. f_equal; auto.
Qed.
Lemma occ_eqb_refl : forall a, occ_eqb a a = true.
Proof. induction a; simpl; auto. rewrite Z.eqb_refl. auto. Qed.

Section Proofs.
Variable A : Type.
Variables (zero one : A) (add mul sub : A -> A -> A) (opp : A -> A) (div : A -> A -> A).
Hypothesis Rth : ring_theory zero one add mul sub opp (@eq A).
Add Ring Aring : Rth.

Notation "a + b" := (add a b).
Notation "a * b" := (mul a b).
Notation sumM := (sum_matching A zero add).
Notation den := (denote A zero add mul).
Notation ind k x v := (if occ_eqb k x then v else zero).

(* ---------------------------------------------------------------- dictionaries *)
Lemma sum_scale m c x : sumM (scale_map A mul m c) x = sumM m x * c.
Proof.
  induction m as [|[k v] r IH]; simpl; [ring|].
  destruct (occ_eqb k x); rewrite IH; ring.
Qed.

Lemma sum_app m1 m2 x : sumM (m1 ++ m2) x = sumM m1 x + sumM m2 x.
Proof.
  induction m1 as [|[k v] r IH]; simpl; [ring|].
  destruct (occ_eqb k x); rewrite IH; ring.
Qed.

Lemma sum_upd (f : A -> A) d : (forall v, f v = v + d) -> forall m k x,
  has A m k = true -> sumM (upd A f m k) x = sumM m x + ind k x d.
Proof.
  intros Hf. unfold has. induction m as [|[k' v] r IH]; intros k x H; simpl in *; try discriminate.
  destruct (occ_eqb k' k) eqn:E.
  - apply occ_eqb_eq in E. subst k'. simpl. destruct (occ_eqb k x); [rewrite Hf|]; ring.
  - simpl. rewrite IH by auto. destruct (occ_eqb k' x); ring.
Qed.

(* replacing the value of a present key by c + (its value) adds c (first match = the entry) *)
Lemma sum_upd_const m k c : forall v x,
  lookup A m k = Some v ->
  sumM (upd A (fun _ => c + v) m k) x = sumM m x + ind k x c.
Proof.
  induction m as [|[k' w] r IH]; intros v x H; simpl in *; try discriminate.
  destruct (occ_eqb k' k) eqn:E.
  - apply occ_eqb_eq in E. subst k'. inversion H; subst w. simpl.
    destruct (occ_eqb k x); ring.
  - simpl. rewrite (IH v) by auto. destruct (occ_eqb k' x); ring.
Qed.

Lemma sum_dict_add m k v x : sumM (dict_add A add m k v) x = sumM m x + ind k x v.
Proof.
  unfold dict_add. destruct (has A m k) eqn:H.
  - apply sum_upd; auto.
  - rewrite sum_app. simpl. destruct (occ_eqb k x); ring.
Qed.

Lemma sum_fold_dict_add c2 x : forall m2 m,
  sumM (fold_left (fun acc kv => dict_add A add acc (fst kv) (snd kv * c2)) m2 m) x
  = sumM m x + sumM m2 x * c2.
Proof.
  induction m2 as [|[k v] r IH]; intros m; simpl; [ring|].
  rewrite IH. rewrite sum_dict_add. destruct (occ_eqb k x); ring.
Qed.

(* ---------------------------------------------------------------- the operators *)
(* scalar multiple *)
Theorem prep_scalar o k x : den (scale_obj A mul o k) x = den o x * k.
Proof. destruct o; simpl; [destruct (occ_eqb o x)|]; ring. Qed.

(* a + b on the repaired code: all four operand-kind combinations *)
Theorem prep_denotation_add a b x :
  den (add_obj A one add mul false a b) x = den a x + den b x.
Proof.
  destruct a as [o1 c1|m1 c1]; destruct b as [o2 c2|m2 c2]; simpl.
  - destruct (occ_eqb o1 o2) eqn:E; simpl.
    + apply occ_eqb_eq in E. subst. destruct (occ_eqb o2 x); ring.
    + destruct (occ_eqb o1 x), (occ_eqb o2 x); ring.
  - destruct (lookup A (scale_map A mul m2 c2) o1) eqn:L; simpl.
    + rewrite (sum_upd_const _ _ _ _ _ L). rewrite sum_scale. destruct (occ_eqb o1 x); ring.
    + rewrite sum_scale. destruct (occ_eqb o1 x); ring.
  - rewrite sum_dict_add, sum_scale. destruct (occ_eqb o2 x); ring.
  - rewrite sum_fold_dict_add, sum_scale. ring.
Qed.

(* the code before the repair: linear except NumberState + FockStateVector with a right
   coefficient different from 1 (the finding C18:NumberState.__add__:fsv-coefficient-dropped) *)
Theorem prep_denotation_add_legacy_except_ns_fsv a b x :
  (is_ns A a = true -> is_ns A b = false -> coeff A b = one) ->
  den (add_obj A one add mul true a b) x = den a x + den b x.
Proof.
  intros Hc.
  destruct a as [o1 c1|m1 c1]; destruct b as [o2 c2|m2 c2];
    try (exact (prep_denotation_add (NS o1 c1) (NS o2 c2) x));
    try (exact (prep_denotation_add (FSV m1 c1) (NS o2 c2) x));
    try (exact (prep_denotation_add (FSV m1 c1) (FSV m2 c2) x)).
  simpl in Hc. rewrite (Hc eq_refl eq_refl). simpl.
  destruct (lookup A m2 o1) eqn:L; simpl.
  - rewrite (sum_upd_const _ _ _ _ _ L). destruct (occ_eqb o1 x); ring.
  - destruct (occ_eqb o1 x); ring.
Qed.

(* ---------------------------------------------------------------- expression trees *)
Notation evalR := (eval A one add mul div false).
Notation semR := (sem A zero one add mul div).

Lemma sem_ext h ext e x :
  leaves_below A (length h) e = true -> semR (h ++ ext) e x = semR h e x.
Proof.
  induction e; simpl; intros H.
  - apply Nat.ltb_lt in H. rewrite nth_error_app1; auto.
  - apply andb_prop in H. destruct H. rewrite IHe1, IHe2; auto.
  - rewrite IHe; auto.
  - rewrite IHe; auto.
  - rewrite IHe; auto.
Qed.

Lemma leaves_below_mono n m e : (n <= m)%nat -> leaves_below A n e = true -> leaves_below A m e = true.
Proof.
  intros Hnm. induction e; simpl; intros H; auto.
  - apply Nat.ltb_lt in H. apply Nat.ltb_lt. lia.
  - apply andb_prop in H. destruct H. rewrite IHe1, IHe2; auto.
Qed.

Lemma nth_error_last {B} (l : list B) (b : B) : nth_error (l ++ [b]) (length l) = Some b.
Proof. rewrite nth_error_app2 by lia. replace (length l - length l)%nat with O by lia. reflexivity. Qed.

(* every expression tree over objects of the heap -- a leaf object may occur several times --
   evaluates (on the repaired code) to an object that denotes the linear combination written,
   and no object that existed before is modified *)
Theorem eval_sound : forall e h h' r,
  leaves_below A (length h) e = true ->
  evalR h e = Some (h', r) ->
  exists ext o, h' = h ++ ext /\ nth_error h' r = Some o /\ forall x, den o x = semR h e x.
Proof.
  assert (Hmul : forall e h h' r k,
    (forall h h' r, leaves_below A (length h) e = true -> evalR h e = Some (h', r) ->
       exists ext o, h' = h ++ ext /\ nth_error h' r = Some o /\ forall x, den o x = semR h e x) ->
    leaves_below A (length h) e = true ->
    match evalR h e with None => None | Some (h1, ia) => mul_at A mul false h1 ia k end = Some (h', r) ->
    exists ext o, h' = h ++ ext /\ nth_error h' r = Some o /\ forall x, den o x = semR h e x * k).
  { intros e h h' r k IH Hl H.
    destruct (evalR h e) as [[h1 ia]|] eqn:E; try discriminate.
    destruct (IH _ _ _ Hl E) as [ext [o [Hh [Ho Hd]]]].
    unfold mul_at in H. rewrite Ho in H. inversion H; subst h' r.
    exists (ext ++ [scale_obj A mul o k]), (scale_obj A mul o k).
    rewrite Hh at 1. rewrite <- app_assoc. split; auto. split.
    - apply nth_error_last.
    - intros x. rewrite prep_scalar, Hd. reflexivity. }
  induction e; intros h h' r Hl H.
  - simpl in *. destruct (nth_error h i) as [o|] eqn:E; try discriminate.
    inversion H; subst. exists [], o. rewrite app_nil_r. repeat split; auto.
  - simpl in *. apply andb_prop in Hl. destruct Hl as [Hl1 Hl2].
    destruct (evalR h e1) as [[h1 ia]|] eqn:E1; try discriminate.
    destruct (IHe1 _ _ _ Hl1 E1) as [ext1 [oa [Hh1 [Hoa Hda]]]].
    destruct (evalR h1 e2) as [[h2 ib]|] eqn:E2; try discriminate.
    assert (leaves_below A (length h1) e2 = true) as Hl2'.
    { eapply leaves_below_mono; [|exact Hl2]. subst h1. rewrite app_length. lia. }
    destruct (IHe2 _ _ _ Hl2' E2) as [ext2 [ob [Hh2 [Hob Hdb]]]].
    assert (nth_error h2 ia = Some oa) as Hoa2.
    { subst h2. rewrite nth_error_app1; auto. apply nth_error_Some. congruence. }
    rewrite Hoa2, Hob in H. inversion H; subst h' r.
    exists (ext1 ++ ext2 ++ [add_obj A one add mul false oa ob]), (add_obj A one add mul false oa ob).
    split; [subst; rewrite <- !app_assoc; reflexivity|]. split; [apply nth_error_last|].
    intros x. rewrite prep_denotation_add, Hda, Hdb. subst h1. rewrite sem_ext; auto.
  - simpl in *. destruct (Hmul e h h' r k IHe Hl H) as [ext [o [? [? Hd]]]]. eauto.
  - simpl in *. destruct (Hmul e h h' r k IHe Hl H) as [ext [o [? [? Hd]]]].
    exists ext, o. repeat split; auto. intros x. rewrite Hd. ring.
  - simpl in *. destruct (Hmul e h h' r (div one k) IHe Hl H) as [ext [o [? [? Hd]]]]. eauto.
Qed.

(* the meaning of an expression is the weighted sum of its leaves ... *)
Lemma sum_terms_app h t1 t2 x :
  sum_terms A zero add mul h (t1 ++ t2) x
  = sum_terms A zero add mul h t1 x + sum_terms A zero add mul h t2 x.
Proof. induction t1 as [|[w i] r IH]; simpl; [ring|]. rewrite IH. ring. Qed.

Lemma sum_terms_scale h k t x :
  sum_terms A zero add mul h (map (fun t => (fst t * k, snd t)) t) x
  = sum_terms A zero add mul h t x * k.
Proof. induction t as [|[w i] r IH]; simpl; [ring|]. rewrite IH. ring. Qed.

Lemma sem_terms h e x : semR h e x = sum_terms A zero add mul h (terms A one mul div e) x.
Proof.
  induction e; simpl.
  - ring.
  - rewrite sum_terms_app. congruence.
  - rewrite sum_terms_scale. congruence.
  - rewrite sum_terms_scale, IHe. ring.
  - rewrite sum_terms_scale. congruence.
Qed.

(* ... which does not depend on the order of the terms *)
Lemma sum_terms_perm h x t1 t2 : Permutation t1 t2 ->
  sum_terms A zero add mul h t1 x = sum_terms A zero add mul h t2 x.
Proof.
  induction 1 as [|[w i] l l' _ IH|[w i] [w' i'] l|]; simpl; try congruence.
  - ring.
Qed.

(* any two ways of writing the same weighted leaves (any order, any grouping, scalars inside or
   outside the brackets) produce objects that prepare the same state *)
Theorem prep_assoc_comm e1 e2 h h1 r1 h2 r2 o1 o2 :
  leaves_below A (length h) e1 = true -> leaves_below A (length h) e2 = true ->
  Permutation (terms A one mul div e1) (terms A one mul div e2) ->
  evalR h e1 = Some (h1, r1) -> evalR h e2 = Some (h2, r2) ->
  nth_error h1 r1 = Some o1 -> nth_error h2 r2 = Some o2 ->
  forall x, den o1 x = den o2 x.
Proof.
  intros L1 L2 P E1 E2 N1 N2 x.
  destruct (eval_sound _ _ _ _ L1 E1) as [_ [o1' [_ [N1' D1]]]].
  destruct (eval_sound _ _ _ _ L2 E2) as [_ [o2' [_ [N2' D2]]]].
  rewrite N1 in N1'. rewrite N2 in N2'. inversion N1'; inversion N2'; subst.
  rewrite D1, D2, !sem_terms. apply sum_terms_perm; auto.
Qed.

(* the repaired evaluation never fails on well-formed input *)
Theorem eval_total : forall e h,
  leaves_below A (length h) e = true -> exists h' r, evalR h e = Some (h', r).
Proof.
  assert (Hmul : forall e h k,
     leaves_below A (length h) e = true ->
     (exists h' r, evalR h e = Some (h', r)) ->
     exists h' r, match evalR h e with None => None | Some (h1, ia) => mul_at A mul false h1 ia k end = Some (h', r)).
  { intros e h k Hl [h1 [ia E]]. rewrite E.
    destruct (eval_sound _ _ _ _ Hl E) as [_ [o [_ [Ho _]]]].
    unfold mul_at. rewrite Ho. eauto. }
  induction e; intros h Hl; simpl in *.
  - apply Nat.ltb_lt in Hl. destruct (nth_error h i) eqn:E; eauto.
    apply nth_error_None in E. lia.
  - apply andb_prop in Hl. destruct Hl as [Hl1 Hl2].
    destruct (IHe1 h Hl1) as [h1 [ia E1]]. rewrite E1.
    destruct (eval_sound _ _ _ _ Hl1 E1) as [ext1 [oa [Hh1 [Hoa _]]]].
    assert (leaves_below A (length h1) e2 = true) as Hl2'.
    { eapply leaves_below_mono; [|exact Hl2]. subst h1. rewrite app_length. lia. }
    destruct (IHe2 h1 Hl2') as [h2 [ib E2]]. rewrite E2.
    destruct (eval_sound _ _ _ _ Hl2' E2) as [ext2 [ob [Hh2 [Hob _]]]].
    assert (nth_error h2 ia = Some oa) as Hoa2.
    { subst h2. rewrite nth_error_app1; auto. apply nth_error_Some. congruence. }
    rewrite Hoa2, Hob. eauto.
  - apply Hmul; auto.
  - apply Hmul; auto.
  - apply Hmul; auto.
Qed.

End Proofs.

(* ---------------------------------------------------------------- the code before the repair, at Z *)
Open Scope Z_scope.
Definition denZ := denote Z 0 Z.add Z.mul.
Definition addZ := add_obj Z 1 Z.add Z.mul.
Definition evalZ := eval Z 1 Z.add Z.mul Z.div.
Definition semZ := sem Z 0 1 Z.add Z.mul Z.div.

(* NumberState([1,0]) + 2 * FockStateVector({(0,1): 1}): the factor 2 is lost *)
Theorem ns_plus_fsv_drops_coefficient_refuted :
  exists a b x, denZ (addZ true a b) x <> denZ a x + denZ b x.
Proof.
  exists (NS [1;0] 1), (FSV [([0;1], 1)] 2), [0;1]. vm_compute. discriminate.
Qed.

(* ... so that the order of the operands matters *)
Theorem legacy_add_not_commutative_refuted :
  exists a b x, denZ (addZ true a b) x <> denZ (addZ true b a) x.
Proof.
  exists (NS [1;0] 1), (FSV [([0;1], 1)] 2), [0;1]. vm_compute. discriminate.
Qed.

(* x*2 + x*3 with the in-place __mul__: both operands are the same object with coefficient 6 *)
Theorem prep_alias_refuted :
  exists h e h' r o x,
    leaves_below Z (length h) e = true /\ evalZ true h e = Some (h', r) /\
    nth_error h' r = Some o /\ denZ o x <> semZ h e x /\ denZ o x = 12 /\ semZ h e x = 5.
Proof.
  exists [NS [1] 1], (Add (Mul (Leaf 0%nat) 2) (Mul (Leaf 0%nat) 3)).
  eexists. eexists. eexists. exists [1].
  vm_compute. repeat split; try reflexivity. discriminate.
Qed.

(* and the caller's object is modified by the in-place __mul__ *)
Theorem legacy_mul_mutates_operand :
  exists h e h' r, evalZ true h e = Some (h', r) /\ nth_error h' 0%nat <> nth_error h 0%nat.
Proof.
  exists [NS [1] 1], (Mul (Leaf 0%nat) 2). eexists. eexists. vm_compute. split; [reflexivity|discriminate].
Qed.

(* non-vacuity of the repaired model on the same inputs *)
Example repaired_alias_example :
  exists h' r, evalZ false [NS [1] 1] (Add (Mul (Leaf 0%nat) 2) (Mul (Leaf 0%nat) 3)) = Some (h', r) /\
               nth_error h' r = Some (NS [1] 5) /\ nth_error h' 0%nat = Some (NS [1] 1).
Proof. eexists. eexists. vm_compute. repeat split; reflexivity. Qed.
