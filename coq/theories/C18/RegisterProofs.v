(* C18 -- proofs about nested registration (for every depth, register and program). *)
From Coq Require Import ZArith List Bool Lia ZifyBool.
From PV Require Import C18.RegisterModel.
Import ListNotations.
Open Scope Z_scope.

(* ------------------------------------------------------------------ small facts *)
Lemma bind_ok {A B} (r : res A) (f : A -> res B) b :
  bind r f = Ok b -> exists a, r = Ok a /\ f a = Ok b.
Proof. destruct r; simpl; intros H; try discriminate. eauto. Qed.

Lemma set_nth_app_last {A} (h : list A) (x y : A) :
  set_nth (h ++ [x]) (length h) y = h ++ [y].
Proof. induction h; simpl; congruence. Qed.

Lemma q_init_ok ms q : q_init ms = Ok q -> q = ms.
Proof.
  unfold q_init. destruct (existsb _ ms); try discriminate.
  destruct (negb _); try discriminate. congruence.
Qed.

Lemma q_init_ok_facts ms q : q_init ms = Ok q ->
  Forall (fun m => 0 <= m) ms /\ distinctZ ms = true.
Proof.
  unfold q_init. destruct (existsb _ ms) eqn:E; try discriminate.
  destruct (distinctZ ms) eqn:D; simpl; try discriminate. intros _. split; auto.
  apply Forall_forall. intros x Hx.
  destruct (x <? 0) eqn:Hlt; [|lia].
  assert (existsb (fun m => m <? 0) ms = true) by (apply existsb_exists; eauto). congruence.
Qed.

Lemma mapM_nil_inv {A B} (f : A -> option B) l : mapM f l = Some [] -> l = [].
Proof. destruct l; simpl; auto. destruct (f a); [destruct (mapM f l)|]; discriminate. Qed.

(* a mapped mode list is empty only if the instruction had no modes *)
Lemma map_modes_nil reg m : map_modes reg m = Ok [] -> m = [].
Proof.
  unfold map_modes. destruct reg; [congruence|].
  destruct m; auto. destruct (mapM _ _) eqn:E; try discriminate.
  intros H. inversion H; subst. apply mapM_nil_inv in E. discriminate.
Qed.

(* the relation between an instruction and its registered copy *)
Definition same_payload (i i' : instr) : Prop :=
  i_cls i' = i_cls i /\ i_params i' = i_params i /\ i_nmodes i' = i_nmodes i.

Lemma set_modes_spec i ms i' : set_modes i ms = Ok i' ->
  same_payload i i' /\ modes_of i' = ms.
Proof.
  unfold set_modes, same_payload, modes_of. destruct (i_nmodes i) eqn:N.
  - destruct (_ =? _); try discriminate. intros H; inversion H; subst; simpl; auto.
  - intros H; inversion H; subst; simpl; auto.
Qed.

Lemma on_modes_spec i ms i' : on_modes i ms = Ok i' ->
  same_payload i i' /\ (ms <> [] -> modes_of i' = ms) /\ (ms = [] -> i' = i).
Proof.
  unfold on_modes. destruct ms.
  - intros H; inversion H; subst. unfold same_payload. repeat split; auto. congruence.
  - intros H. apply set_modes_spec in H. destruct H. repeat split; auto; try apply H.
    congruence.
Qed.

(* ------------------------------------------------------------------ one instruction *)
Definition registered (reg : list Z) (i i' : instr) : Prop :=
  same_payload i i' /\ map_modes reg (modes_of i) = Ok (modes_of i').

Lemma apply_one_spec reg h t id h' t' :
  apply_one reg (h, t) id = Ok (h', t') ->
  exists i i', nth_error h id = Some i /\ h' = h ++ [i'] /\ t' = t ++ [length h] /\
               registered reg i i'.
Proof.
  unfold apply_one. destruct (nth_error h id) as [i|] eqn:E; try discriminate.
  intros H.
  apply bind_ok in H. destruct H as [m [Hm H]].
  apply bind_ok in H. destruct H as [q [Hq H]].
  apply bind_ok in H. destruct H as [i' [Hi H]].
  inversion H; subst; clear H.
  exists i, i'. rewrite set_nth_app_last. repeat split; auto;
    try (apply on_modes_spec in Hi; apply Hi).
  apply q_init_ok in Hq. subst q.
  apply on_modes_spec in Hi. destruct Hi as [_ [Hne He]].
  destruct m.
  - rewrite (He eq_refl). apply map_modes_nil in Hm as Hm'. rewrite Hm'. rewrite Hm' in Hm. exact Hm.
  - rewrite Hne by congruence. exact Hm.
Qed.

(* ------------------------------------------------------------------ a whole program *)
Lemma Forall2_impl_in {A B} (P Q : A -> B -> Prop) : forall l l',
  (forall a b, In a l -> P a b -> Q a b) -> Forall2 P l l' -> Forall2 Q l l'.
Proof.
  induction l; intros l' H HF; inversion HF; subst; constructor.
  - apply H; simpl; auto.
  - apply IHl; auto. intros; apply H; simpl; auto.
Qed.

Lemma apply_program_spec reg : forall src h t h' t',
  (forall id, In id src -> (id < length h)%nat) ->
  apply_program reg (h, t) src = Ok (h', t') ->
  exists ext, h' = h ++ ext /\ t' = t ++ seq (length h) (length src) /\
    Forall2 (fun id i' => exists i, nth_error h id = Some i /\ registered reg i i') src ext.
Proof.
  induction src as [|id r IH]; intros h t h' t' Hv H.
  - simpl in H. inversion H; subst. exists []. rewrite !app_nil_r. simpl. auto.
  - simpl in H. apply bind_ok in H. destruct H as [[h1 t1] [H1 H2]].
    apply apply_one_spec in H1. destruct H1 as [i [i' [Hi [Hh [Ht Hr]]]]]. subst h1 t1.
    apply IH in H2.
    + destruct H2 as [ext [Hh' [Ht' HF]]]. exists (i' :: ext). subst h' t'.
      rewrite <- !app_assoc. simpl. rewrite app_length. simpl.
      replace (length h + 1)%nat with (S (length h)) by lia.
      repeat split; auto. constructor; eauto.
      eapply Forall2_impl_in; [|exact HF]. simpl. intros a b Hin [i0 [Hn Hreg]].
      exists i0. split; auto.
      rewrite nth_error_app1 in Hn; auto. apply Hv; simpl; auto.
    + intros id' Hin. rewrite app_length. simpl. specialize (Hv id' (or_intror Hin)). lia.
Qed.

(* ------------------------------------------------------------------ one level of nesting *)
Lemma nest_once_spec h src reg h' out :
  (forall id, In id src -> (id < length h)%nat) ->
  nest_once h src reg = Ok (h', out) ->
  q_init reg = Ok reg /\
  exists ext, h' = h ++ ext /\ out = seq (length h) (length src) /\
    Forall2 (fun id i' => exists i, nth_error h id = Some i /\ registered reg i i') src ext.
Proof.
  intros Hv H. unfold nest_once in H. apply bind_ok in H. destruct H as [q [Hq H]].
  pose proof (q_init_ok _ _ Hq). subst q. split; auto.
  apply apply_program_spec in H; auto.
Qed.

(* chain of registers (innermost first) *)
Definition registered_chain (regs : list (list Z)) (i i' : instr) : Prop :=
  same_payload i i' /\ compose_regs regs (modes_of i) = Ok (modes_of i').

Lemma same_payload_trans a b c : same_payload a b -> same_payload b c -> same_payload a c.
Proof. unfold same_payload. intuition congruence. Qed.

Lemma Forall2_length' {A B} (P : A -> B -> Prop) l l' : Forall2 P l l' -> length l = length l'.
Proof. induction 1; simpl; auto. Qed.

(* the objects of the fresh program are exactly the new heap cells, in order *)
Lemma nth_error_seq_ext {A} (h ext : list A) : forall k,
  (k < length ext)%nat ->
  nth_error (h ++ ext) (nth k (seq (length h) (length ext)) O) = nth_error ext k.
Proof.
  intros k Hk. rewrite seq_nth by auto. rewrite nth_error_app2 by lia.
  f_equal. lia.
Qed.

Lemma Forall2_seq_ext {A} (P : A -> Prop) (h : list A) : forall ext n,
  n = length h ->
  Forall P ext ->
  Forall2 (fun id b => nth_error (h ++ ext) id = Some b) (seq n (length ext)) ext.
Proof.
  intros ext n -> _. revert h.
  induction ext as [|x r IH]; intros h; simpl; constructor.
  - rewrite nth_error_app2 by lia. replace (length h - length h)%nat with O by lia. reflexivity.
  - specialize (IH (h ++ [x])). rewrite app_length in IH. simpl in IH.
    replace (length h + 1)%nat with (S (length h)) in IH by lia.
    rewrite <- app_assoc in IH. exact IH.
Qed.

Lemma Forall2_comp3 {A B C D} (P : A -> B -> Prop) (Q : C -> B -> Prop) (R : C -> D -> Prop)
  (S : A -> D -> Prop) :
  (forall a b c d, P a b -> Q c b -> R c d -> S a d) ->
  forall l1 l2 l3 l4, Forall2 P l1 l2 -> Forall2 Q l3 l2 -> Forall2 R l3 l4 -> Forall2 S l1 l4.
Proof.
  intros H. induction l1; intros l2 l3 l4 H1 H2 H3;
    inversion H1; subst; inversion H2; subst; inversion H3; subst; constructor; eauto.
Qed.

(* ------------------------------------------------------------------ every depth *)
Theorem nest_spec : forall regs h src h' out,
  (forall id, In id src -> (id < length h)%nat) ->
  nest h src regs = Ok (h', out) ->
  exists ext, h' = h ++ ext /\
    length out = length src /\
    (forall id, In id out -> (id < length h')%nat) /\
    Forall2 (fun id id' => exists i i', nth_error h id = Some i /\ nth_error h' id' = Some i' /\
                                        registered_chain regs i i') src out.
Proof.
  induction regs as [|reg rest IH]; intros h src h' out Hv H.
  - simpl in H. inversion H; subst. exists []. rewrite app_nil_r.
    repeat split; auto; try congruence.
    clear H. induction out; constructor.
    + pose proof (Hv a (or_introl eq_refl)) as Ha.
      destruct (nth_error h' a) as [i|] eqn:E; [|apply nth_error_None in E; lia].
      exists i, i. unfold registered_chain, same_payload. simpl. repeat split; auto.
    + apply IHout. intros; apply Hv; simpl; auto.
  - simpl in H. apply bind_ok in H. destruct H as [[h1 out1] [H1 H2]]. simpl in H2.
    apply nest_once_spec in H1; auto. destruct H1 as [Hq [ext1 [Hh1 [Ho1 HF1]]]].
    pose proof (Forall2_length' _ _ _ HF1) as Hlen.
    assert (Hv1 : forall id, In id out1 -> (id < length h1)%nat).
    { subst. intros id Hin. apply in_seq in Hin. rewrite app_length. lia. }
    apply IH in H2; auto. destruct H2 as [ext2 [Hh' [Hlo [Hvo HF2]]]].
    exists (ext1 ++ ext2). subst h1. rewrite <- app_assoc in Hh'.
    repeat split; auto.
    + rewrite Hlo. subst out1. rewrite seq_length. auto.
    + (* compose the two relations *)
      subst out1.
      assert (HFm : Forall2 (fun id b => nth_error (h ++ ext1) id = Some b) (seq (length h) (length src)) ext1).
      { rewrite Hlen. apply (Forall2_seq_ext (fun _ => True)); auto. apply Forall_forall; auto. }
      refine (Forall2_comp3 _ _ _ _ _ _ _ _ _ HF1 HFm HF2).
      intros a b c d [i [Hi Hr]] Hc [j [j' [Hj [Hj' Hch]]]].
      rewrite Hc in Hj. inversion Hj; subst j.
      exists i, j'. repeat split; auto.
      * eapply same_payload_trans; [apply Hr | apply Hch].
      * eapply same_payload_trans; [apply Hr | apply Hch].
      * eapply same_payload_trans; [apply Hr | apply Hch].
      * simpl. destruct Hr as [_ Hm]. rewrite Hm. simpl. apply Hch.
Qed.

(* the program built by a non-trivial nesting consists of fresh objects only:
   it shares no instruction object with the inner program *)
Lemma nest_fresh : forall rest reg h src h' out,
  (forall id, In id src -> (id < length h)%nat) ->
  nest h src (reg :: rest) = Ok (h', out) ->
  exists n, (length h <= n)%nat /\ out = seq n (length src).
Proof.
  induction rest as [|r2 rest IH]; intros reg h src h' out Hv H.
  - simpl in H. apply bind_ok in H. destruct H as [[h1 out1] [H1 H2]]. simpl in H2.
    inversion H2; subst. apply nest_once_spec in H1; auto.
    destruct H1 as [_ [ext [_ [Ho _]]]]. exists (length h). split; auto.
  - change (nest h src (reg :: r2 :: rest)) with
      (bind (nest_once h src reg) (fun st => nest (fst st) (snd st) (r2 :: rest))) in H.
    apply bind_ok in H. destruct H as [[h1 out1] [H1 H2]]. simpl fst in H2. simpl snd in H2.
    apply nest_once_spec in H1; auto. destruct H1 as [_ [ext [Hh1 [Ho HF]]]].
    pose proof (Forall2_length' _ _ _ HF) as Hlen.
    apply IH in H2.
    + destruct H2 as [n [Hn Hout]]. exists n. split.
      * subst h1. rewrite app_length in Hn. lia.
      * subst out1. rewrite seq_length in Hout. exact Hout.
    + subst. intros id Hin. apply in_seq in Hin. rewrite app_length. lia.
Qed.

(* ------------------------------------------------------------------ "exactly once":
   mapping through two registers in turn is mapping through the composed register *)
Lemma mapM_spec {A B} (f : A -> option B) : forall l l',
  mapM f l = Some l' ->
  length l' = length l /\
  forall k a, nth_error l k = Some a -> exists b, f a = Some b /\ nth_error l' k = Some b.
Proof.
  induction l as [|x r IH]; intros l' H; simpl in H.
  - inversion H; subst. split; auto. intros [|k] a Hk; discriminate.
  - destruct (f x) as [b|] eqn:Fx; try discriminate.
    destruct (mapM f r) as [bs|] eqn:Fr; try discriminate. inversion H; subst.
    destruct (IH bs eq_refl) as [Hl Hn]. split; simpl; auto.
    intros [|k] a Hk; simpl in *.
    + inversion Hk; subst. eauto.
    + apply Hn; auto.
Qed.

Lemma mapM_pointwise {A B} (f g : A -> option B) : forall l l',
  mapM f l = Some l' ->
  (forall a b, In a l -> f a = Some b -> g a = Some b) ->
  mapM g l = Some l'.
Proof.
  induction l as [|x r IH]; intros l' H Hfg; simpl in *; auto.
  destruct (f x) as [b|] eqn:Fx; try discriminate.
  destruct (mapM f r) as [bs|] eqn:Fr; try discriminate. inversion H; subst.
  rewrite (Hfg x b); auto. rewrite (IH bs); auto.
Qed.

Definition pos (n : Z) (m : Z) : option nat :=
  if 0 <=? m then (if m <? n then Some (Z.to_nat m) else None)
  else if (- n) <=? m then Some (Z.to_nat (m + n)) else None.

Lemma py_index_pos r m :
  py_index r m = match pos (Z.of_nat (length r)) m with Some k => nth_error r k | None => None end.
Proof. unfold py_index, pos. destruct (0 <=? m); [destruct (m <? _)|destruct (_ <=? m)]; auto. Qed.

Lemma py_index_comp r1 r2 r12 m x y :
  mapM (py_index r1) r2 = Some r12 ->
  py_index r2 m = Some x -> py_index r1 x = Some y -> py_index r12 m = Some y.
Proof.
  intros H12 H2 H1. destruct (mapM_spec _ _ _ H12) as [Hl Hn].
  rewrite py_index_pos in *. rewrite Hl.
  destruct (pos _ m) as [k|]; try discriminate.
  destruct (Hn k x H2) as [b [Hb Hk]]. rewrite py_index_pos in Hb. congruence.
Qed.

Lemma mapM_comp r1 r2 r12 : forall m x y,
  mapM (py_index r1) r2 = Some r12 ->
  mapM (py_index r2) m = Some x -> mapM (py_index r1) x = Some y ->
  mapM (py_index r12) m = Some y.
Proof.
  induction m as [|a m IH]; intros x y H12 H2 H1; simpl in *.
  - inversion H2; subst. simpl in H1. exact H1.
  - destruct (py_index r2 a) as [xa|] eqn:Ea; try discriminate.
    destruct (mapM (py_index r2) m) as [xs|] eqn:Em; try discriminate.
    inversion H2; subst. simpl in H1.
    destruct (py_index r1 xa) as [ya|] eqn:Ey; try discriminate.
    destruct (mapM (py_index r1) xs) as [ys|] eqn:Eys; try discriminate.
    inversion H1; subst.
    rewrite (py_index_comp _ _ _ _ _ _ H12 Ea Ey). rewrite (IH xs ys); auto.
Qed.

(* r1 is the enclosing (outer) register, r2 the inner one *)
Theorem map_modes_assoc r1 r2 m x y r12 :
  map_modes r2 m = Ok x -> map_modes r1 x = Ok y -> map_modes r1 r2 = Ok r12 ->
  map_modes r12 m = Ok y.
Proof.
  unfold map_modes. intros H2 H1 H12.
  destruct r2 as [|b r2].
  - (* inner register empty: x = m, r12 = r1 *)
    inversion H2; subst x. destruct r1; inversion H12; subst; exact H1.
  - destruct m as [|a m].
    + (* instruction without modes: it gets the whole register *)
      inversion H2; subst x. rewrite H12 in H1. inversion H1; subst.
      destruct y; auto.
    + destruct (mapM (py_index (b :: r2)) (a :: m)) as [xs|] eqn:E2; try discriminate.
      inversion H2; subst x.
      destruct r1 as [|c r1].
      * inversion H1; subst. inversion H12; subst. rewrite E2. reflexivity.
      * destruct (mapM (py_index (c :: r1)) (b :: r2)) as [l12|] eqn:E12; try discriminate.
        inversion H12; subst r12.
        assert (xs <> []) as Hx.
        { intros ->. apply mapM_nil_inv in E2. discriminate. }
        destruct xs as [|x0 xs]; [congruence|].
        destruct (mapM (py_index (c :: r1)) (x0 :: xs)) as [ys|] eqn:E1; try discriminate.
        inversion H1; subst y.
        assert (l12 <> []) as Hl.
        { intros ->. apply mapM_nil_inv in E12. discriminate. }
        destruct l12 as [|l0 l12]; [congruence|].
        rewrite (mapM_comp _ _ _ _ _ _ E12 E2 E1). reflexivity.
Qed.

(* ------------------------------------------------------------------ the observable statement *)
Definition entry_mapped (regs : list (list Z)) (a b : option (Z * list Z * Z)) : Prop :=
  exists c m p m', a = Some (c, m, p) /\ b = Some (c, m', p) /\ compose_regs regs m = Ok m'.

Theorem nest_maps_once : forall regs h src h' out,
  (forall id, In id src -> (id < length h)%nat) ->
  nest h src regs = Ok (h', out) ->
  Forall2 (entry_mapped regs) (view h src) (view h' out).
Proof.
  intros regs h src h' out Hv H. apply nest_spec in H; auto.
  destruct H as [ext [_ [_ [_ HF]]]]. unfold view.
  induction HF as [|id id' s o [i [i' [Hi [Hi' [[Hc [Hp _]] Hm]]]]] _ IH]; simpl; constructor; auto.
  - rewrite Hi, Hi'. exists (i_cls i), (modes_of i), (i_params i), (modes_of i').
    rewrite Hc, Hp. auto.
  - apply IH. intros; apply Hv; simpl; auto.
Qed.

(* the inner program -- every object that existed before -- is left exactly as it was *)
Theorem inner_program_unchanged : forall regs h src h' out,
  (forall id, In id src -> (id < length h)%nat) ->
  nest h src regs = Ok (h', out) ->
  (forall id, (id < length h)%nat -> nth_error h' id = nth_error h id) /\
  (forall p, (forall id, In id p -> (id < length h)%nat) -> view h' p = view h p).
Proof.
  intros regs h src h' out Hv H. apply nest_spec in H; auto.
  destruct H as [ext [Hh _]]. subst h'.
  assert (forall id, (id < length h)%nat -> nth_error (h ++ ext) id = nth_error h id) as Hn
    by (intros; apply nth_error_app1; auto).
  split; auto. intros p Hp. unfold view. apply map_ext_in. intros a Ha. rewrite Hn; auto.
Qed.

(* registering an instruction directly (Q(..) | instruction) does NOT copy: the caller's object
   is the one in the program, with its modes overwritten *)
Lemma register_instr_aliases h t id reg h' t' :
  register_instr h t id reg = Ok (h', t') -> t' = t ++ [id] /\ length h' = length h.
Proof.
  unfold register_instr. destruct (nth_error h id); try discriminate.
  intros H. apply bind_ok in H. destruct H as [i' [_ H]]. inversion H; subst. split; auto.
  clear. revert id. induction h; destruct id; simpl; auto.
Qed.
