(* Running the representation model exactly: the ring Q[sqrt 2, sqrt hbar] as 4-tuples
   a + b*sqrt2 + c*sqrt(hbar) + e*sqrt2*sqrt(hbar) over Q, for a rational hbar.
   Definitions only.  Used by the generated cases files of harness/props/c14.py; the
   harness converts a 4-tuple to a float with Python's sqrt (trusted, see manifest note). *)
From Coq Require Import QArith ZArith List.
From PV Require Import C14.ReprModel C14.ObsModel.
Import ListNotations.

Record surd := mkS { sa : Q; sb : Q; sc : Q; se : Q }.

Definition sq (q : Q) : surd := mkS q 0 0 0.
Definition sadd (x y : surd) : surd :=
  mkS (Qred (sa x + sa y)) (Qred (sb x + sb y)) (Qred (sc x + sc y)) (Qred (se x + se y)).
Definition sopp (x : surd) : surd := mkS (Qred (- sa x)) (Qred (- sb x)) (Qred (- sc x)) (Qred (- se x)).
Definition ssub (x y : surd) : surd := sadd x (sopp y).
Definition smul (hb : Q) (x y : surd) : surd :=
  let '(mkS a1 b1 c1 e1) := x in
  let '(mkS a2 b2 c2 e2) := y in
  mkS (Qred (a1 * a2 + 2 * (b1 * b2) + hb * (c1 * c2) + 2 * hb * (e1 * e2)))
      (Qred (a1 * b2 + b1 * a2 + hb * (c1 * e2 + e1 * c2)))
      (Qred (a1 * c2 + c1 * a2 + 2 * (b1 * e2 + e1 * b2)))
      (Qred (a1 * e2 + e1 * a2 + b1 * c2 + c1 * b2)).

Definition KS (hb : Q) : ops surd := mkops surd (sq 0) (sq 1) sadd (smul hb) ssub sopp.

(* the constants of the model at a rational hbar *)
Definition c_hbar (hb : Q) : surd := sq hb.
Definition c_ihbar (hb : Q) : surd := sq (Qred (/ hb)).
Definition c_rt2 : surd := mkS 0 1 0 0.
Definition c_sh : surd := mkS 0 0 1 0.
Definition c_ish (hb : Q) : surd := mkS 0 0 (Qred (/ hb)) 0.          (* 1/sqrt(hbar) = sqrt(hbar)/hbar *)
Definition c_isq (hb : Q) : surd := mkS 0 0 0 (Qred (/ (2 * hb))).   (* 1/sqrt(2 hbar) *)
Definition c_i4 : surd := sq (1 # 4).
Definition c_i2 : surd := sq (1 # 2).

(* inputs: rational vectors / matrices / complex matrices as lists *)
Definition qvec (l : list Q) : vec surd := fun k => sq (nth k l 0).
Definition qmat (l : list (list Q)) : mat surd := fun i j => sq (nth j (nth i l []) 0).
Definition qcvec (l : list (Q * Q)) : cvec surd :=
  fun k => let z := nth k l (0, 0) in (sq (fst z), sq (snd z)).
Definition qcmat (l : list (list (Q * Q))) : cmat surd :=
  fun i j => let z := nth j (nth i l []) (0, 0) in (sq (fst z), sq (snd z)).
Definition idx (l : list nat) : nat -> nat := fun k => nth k l 0%nat.

(* memoise a function-matrix through a table (so that det does not recompute entries) *)
Definition memo2 (n : nat) (M : mat surd) : mat surd :=
  let t := tab2 n M in fun i j => nth j (nth i t []) (sq 0).

(* outputs: flatten to integers  num/den of the four components *)
Definition zq (q : Q) : list Z := let r := Qred q in [Qnum r; Zpos (Qden r)].
Definition zs (x : surd) : list Z := zq (sa x) ++ zq (sb x) ++ zq (sc x) ++ zq (se x).
Definition zc (z : Cx surd) : list Z := zs (fst z) ++ zs (snd z).
Definition out_vec (n : nat) (v : vec surd) : list Z := flat_map zs (tab1 n v).
Definition out_mat (n : nat) (M : mat surd) : list Z := flat_map (flat_map zs) (tab2 n M).
Definition out_cvec (n : nat) (v : cvec surd) : list Z := flat_map zc (tab1 n v).
Definition out_cmat (n : nat) (M : cmat surd) : list Z := flat_map (flat_map zc) (tab2 n M).

Section At.
Variable hb : Q.
Let K := KS hb.
Let hbar := c_hbar hb.

Definition mk_state (m : list (Q * Q)) (C G : list (list (Q * Q))) : gstate surd :=
  {| gm := qcvec m; gC := qcmat C; gG := qcmat G |}.

(* every getter of a d-mode state, in a fixed order *)
Definition getters (d : nat) (s : gstate surd) : list Z :=
  out_vec (2 * d) (xxpp_mean K c_rt2 c_sh d s) ++
  out_mat (2 * d) (xxpp_cov K hbar d s) ++
  out_mat (2 * d) (xxpp_corr K hbar c_rt2 c_sh d s) ++
  out_vec (2 * d) (xpxp_mean K c_rt2 c_sh d s) ++
  out_mat (2 * d) (xpxp_cov K hbar d s) ++
  out_mat (2 * d) (xpxp_corr K hbar c_rt2 c_sh d s) ++
  out_cvec (2 * d) (complex_displacement K d s) ++
  out_cmat (2 * d) (complex_cov K d s) ++
  zs (mean_photon_number K d s).

Definition ladder (d : nat) (s : gstate surd) : list Z :=
  out_cvec d (gm s) ++ out_cmat d (gC s) ++ out_cmat d (gG s).

(* state built by the xpxp setters / by the xxpp setters from rational mean and covariance *)
Definition via_xpxp (d : nat) (mean : list Q) (cov : list (list Q)) : gstate surd :=
  set_xpxp K (c_ihbar hb) c_i4 (c_isq hb) d (qvec mean) (qmat cov).
Definition via_xxpp (d : nat) (mean : list Q) (cov : list (list Q)) : gstate surd :=
  set_xxpp K (c_ihbar hb) c_i4 (c_isq hb) d (qvec mean) (qmat cov).

(* reduced(modes).rotated(phi) with cos phi = c, sin phi = s *)
Definition red_rot (modes : list nat) (c s : Q) (st : gstate surd) : gstate surd :=
  rotated K (sq c) (sq s) (reduced (idx modes) st).

Definition purity_sq (d : nat) (s : gstate surd) : list Z :=
  zs (purity_sq_num K hbar d) ++
  zs (det K (2 * d) (memo2 (2 * d) (xxpp_cov K hbar d s))).

Definition xp_moments (d : nat) (s : gstate surd) (strings : list (list nat)) : list Z :=
  flat_map (fun ops => zc (xp_string_moment K hbar c_rt2 c_sh c_i2 d s ops)) strings.
Definition ladder_moments (d : nat) (s : gstate surd) (strings : list (list nat)) : list Z :=
  flat_map (fun ops => zc (ladder_string_moment K d s ops)) strings.

(* normalised moments handed to the kernels of fidelity / threshold detection *)
Definition normalised (d : nat) (s : gstate surd) : list Z :=
  flat_map (flat_map zs) (norm_xpxp_cov K hbar (c_ihbar hb) d s) ++
  flat_map zs (norm_xpxp_mean K c_rt2 c_sh (c_ish hb) d s).

(* observables of ObsModel.v: exact value / exact kernel arguments *)
Definition variance_out (d : nat) (s : gstate surd) : list Z := zs (variance_photon_number K d s).
Definition ps_out (d : nat) (s : gstate surd) (z : list (Q * Q)) : list Z :=
  out_cmat (2 * d) (ps_M K c_i2 d s (qcvec z)).
Definition purify_arg_out (d : nat) (s : gstate surd) : list Z :=
  flat_map (flat_map zs) (purify_williamson_arg K hbar (c_ihbar hb) d s).
End At.
