(* C08 — proofs about the Gaussian part of the model of PhysModel.v, at A := R.
   Positivity is a statement about quadratic forms: for x = u + i v (u, v real),
     x^H (sigma/hbar + i Omega) x = (u^T sigma u + v^T sigma v)/hbar - 2 u^T Omega v,
   so  sigma/hbar + i Omega >= 0  iff  forall u v, 0 <= u.sigma.u + v.sigma.v - 2 hbar omg(u,v). *)
From Coq Require Import Reals Lra Lia List Arith Bool Psatz.
From PV Require Import C08.PhysModel.
Import ListNotations.
Open Scope R_scope.

Definition ROps : Ops R := mkOps R 0 1 Rplus Rmult Rminus Ropp.
Notation rsum := (sumn ROps).
Notation rbil := (bil ROps).
Notation romg := (omg ROps).
Notation rtmv := (tmv ROps).
Notation rmv := (mv ROps).
Notation rget := (get ROps).

(* ------------------------------------------------------------------ finite sums *)
Lemma sumn_ext n f g : (forall i, (i < n)%nat -> f i = g i) -> rsum n f = rsum n g.
Proof.
  induction n; intros H; simpl; [reflexivity|].
  rewrite IHn by (intros; apply H; lia). rewrite H by lia. reflexivity.
Qed.
Lemma sumn_add n f g : rsum n (fun i => f i + g i) = rsum n f + rsum n g.
Proof. induction n; simpl; [lra|]. rewrite IHn. lra. Qed.
Lemma sumn_sub n f g : rsum n (fun i => f i - g i) = rsum n f - rsum n g.
Proof. induction n; simpl; [lra|]. rewrite IHn. lra. Qed.
Lemma sumn_scale_l n c f : c * rsum n f = rsum n (fun i => c * f i).
Proof. induction n; simpl; [lra|]. rewrite <- IHn. lra. Qed.
Lemma sumn_scale_r n c f : rsum n f * c = rsum n (fun i => f i * c).
Proof. induction n; simpl; [lra|]. rewrite <- IHn. lra. Qed.
Lemma sumn_zero n : rsum n (fun _ => 0) = 0.
Proof. induction n; simpl; lra. Qed.
Lemma sumn_swap n m (f : nat -> nat -> R) :
  rsum n (fun i => rsum m (fun j => f i j)) = rsum m (fun j => rsum n (fun i => f i j)).
Proof.
  induction n; simpl.
  - symmetry. apply sumn_zero.
  - rewrite IHn. rewrite <- sumn_add. reflexivity.
Qed.
Lemma sumn_nonneg n f : (forall i, (i < n)%nat -> 0 <= f i) -> 0 <= rsum n f.
Proof.
  induction n; intros H; simpl; [lra|].
  assert (0 <= rsum n f) by (apply IHn; intros; apply H; lia).
  assert (0 <= f n) by (apply H; lia). lra.
Qed.
Lemma sumn_delta n a (g : nat -> R) : (a < n)%nat ->
  rsum n (fun j => if Nat.eqb j a then g j else 0) = g a.
Proof.
  induction n; intros H; [lia|]. simpl.
  destruct (Nat.eq_dec a n) as [->|Hne].
  - rewrite Nat.eqb_refl.
    rewrite (sumn_ext n _ (fun _ => 0)).
    + rewrite sumn_zero. lra.
    + intros i Hi. destruct (Nat.eqb_spec i n); [lia|reflexivity].
  - rewrite IHn by lia. destruct (Nat.eqb_spec n a); [lia|lra].
Qed.
Lemma sumn_delta_none n a (g : nat -> R) : (n <= a)%nat ->
  rsum n (fun j => if Nat.eqb j a then g j else 0) = 0.
Proof.
  intros H. rewrite (sumn_ext n _ (fun _ => 0)); [apply sumn_zero|].
  intros i Hi. destruct (Nat.eqb_spec i a); [lia|reflexivity].
Qed.
Lemma sumn_pairs d (g : nat -> R) :
  rsum (2 * d) g = rsum d (fun k => g (2 * k)%nat + g (2 * k + 1)%nat).
Proof.
  induction d; [reflexivity|].
  replace (2 * S d)%nat with (S (S (2 * d))) by lia.
  change (rsum (S (S (2 * d))) g) with (rsum (2 * d) g + g (2 * d)%nat + g (S (2 * d))).
  rewrite IHd.
  change (rsum (S d) (fun k => g (2 * k)%nat + g (2 * k + 1)%nat))
    with (rsum d (fun k => g (2 * k)%nat + g (2 * k + 1)%nat) + (g (2 * d)%nat + g (2 * d + 1)%nat)).
  replace (S (2 * d)) with (2 * d + 1)%nat by lia. lra.
Qed.

(* ------------------------------------------------------------------ bilinear forms *)
Definition dot n (u w : nat -> R) := rsum n (fun i => u i * w i).

Lemma bil_dot n F u v : rbil n F u v = dot n u (rmv n F v).
Proof.
  unfold bil, dot, mv. apply sumn_ext; intros i _. cbn.
  rewrite sumn_scale_l. apply sumn_ext; intros j _. cbn. ring.
Qed.
Lemma dot_ext n u w w' : (forall i, (i < n)%nat -> w i = w' i) -> dot n u w = dot n u w'.
Proof. intros H. apply sumn_ext; intros i Hi. rewrite H by assumption. reflexivity. Qed.
Lemma dot_mv_tr n S u w : dot n u (rmv n S w) = dot n (rtmv n S u) w.
Proof.
  unfold dot, mv, tmv. cbn.
  rewrite (sumn_ext n _ (fun i => rsum n (fun k => u i * S i k * w k))).
  2:{ intros i _. rewrite sumn_scale_l. apply sumn_ext; intros k _. ring. }
  rewrite sumn_swap. apply sumn_ext; intros k _.
  rewrite sumn_scale_r. apply sumn_ext; intros i _. ring.
Qed.
Lemma mv_fmul n F G v i : rmv n (fmul ROps n F G) v i = rmv n F (rmv n G v) i.
Proof.
  unfold mv, fmul. cbn.
  rewrite (sumn_ext n _ (fun j => rsum n (fun k => F i k * G k j * v j))).
  2:{ intros j _. rewrite sumn_scale_r. reflexivity. }
  rewrite sumn_swap. apply sumn_ext; intros k _.
  rewrite sumn_scale_l. apply sumn_ext; intros j _. ring.
Qed.

(* u^T (S F S^T) v = (S^T u)^T F (S^T v) *)
Lemma bil_cong n S F u v :
  rbil n (fcong ROps n S F) u v = rbil n F (rtmv n S u) (rtmv n S v).
Proof.
  rewrite !bil_dot. unfold fcong.
  rewrite (dot_ext n u _ (rmv n S (rmv n F (rtmv n S v)))).
  - apply dot_mv_tr.
  - intros i _. rewrite mv_fmul. rewrite mv_fmul. reflexivity.
Qed.
Lemma bil_ext n F G u v : (forall i j, (i < n)%nat -> (j < n)%nat -> F i j = G i j) ->
  rbil n F u v = rbil n G u v.
Proof.
  intros H. apply sumn_ext; intros i Hi. apply sumn_ext; intros j Hj. rewrite H by assumption.
  reflexivity.
Qed.
Lemma bil_add n F G u v : rbil n (fadd ROps F G) u v = rbil n F u v + rbil n G u v.
Proof.
  unfold bil, fadd. rewrite <- sumn_add. apply sumn_ext; intros i _.
  rewrite <- sumn_add. apply sumn_ext; intros j _. cbn. ring.
Qed.
Lemma bil_scale n c F u v : rbil n (fscale ROps c F) u v = c * rbil n F u v.
Proof.
  unfold bil, fscale. rewrite sumn_scale_l. apply sumn_ext; intros i _.
  rewrite sumn_scale_l. apply sumn_ext; intros j _. cbn. ring.
Qed.
Lemma bil_diag n (c : nat -> R) u v :
  rbil n (fun i j => if Nat.eqb i j then c i else 0) u v = rsum n (fun i => u i * c i * v i).
Proof.
  unfold bil. apply sumn_ext; intros i Hi.
  rewrite (sumn_ext n _ (fun j => if Nat.eqb j i then u i * c i * v j else 0)).
  - apply sumn_delta; assumption.
  - intros j _. cbn. rewrite (Nat.eqb_sym i j). destruct (Nat.eqb j i); ring.
Qed.

(* the matrix omegaF represents the form omg *)
Lemma omega_row d v i : (i < 2 * d)%nat ->
  rsum (2 * d) (fun j => omegaF ROps i j * v j) =
  if Nat.even i then v (i + 1)%nat else - v (i - 1)%nat.
Proof.
  intros Hi. unfold omegaF. cbn.
  destruct (Nat.even i) eqn:E.
  - assert (i + 1 < 2 * d)%nat.
    { apply Nat.even_spec in E. destruct E as [k ->]. lia. }
    rewrite (sumn_ext _ _ (fun j => if Nat.eqb j (i + 1) then v j else 0)).
    + apply sumn_delta; assumption.
    + intros j _. simpl andb. destruct (Nat.eqb j (i + 1)); [ring|].
      rewrite <- Nat.negb_even, E. simpl. ring.
  - assert (O: Nat.odd i = true) by (rewrite <- Nat.negb_even, E; reflexivity).
    assert (1 <= i)%nat. { destruct i; [discriminate|lia]. }
    rewrite (sumn_ext _ _ (fun j => if Nat.eqb j (i - 1) then - v j else 0)).
    + rewrite sumn_delta by lia. reflexivity.
    + intros j _. simpl andb. rewrite O. simpl andb.
      destruct (Nat.eqb_spec i (j + 1)); destruct (Nat.eqb_spec j (i - 1)); try lia; ring.
Qed.
Lemma omg_bil d u v : rbil (2 * d) (omegaF ROps) u v = romg d u v.
Proof.
  rewrite bil_dot. unfold dot.
  rewrite (sumn_ext _ _ (fun i => u i * (if Nat.even i then v (i + 1)%nat else - v (i - 1)%nat))).
  2:{ intros i Hi. unfold mv. rewrite omega_row by assumption. reflexivity. }
  rewrite sumn_pairs. unfold omg. apply sumn_ext; intros k _. cbn -[Nat.mul Nat.even].
  rewrite Nat.even_mul. simpl orb.
  replace (Nat.even (2 * k + 1)) with false.
  2:{ rewrite Nat.add_1_r, Nat.even_succ, <- Nat.negb_even, Nat.even_mul. reflexivity. }
  replace (2 * k + 1 - 1)%nat with (2 * k)%nat by lia. ring.
Qed.

(* ------------------------------------------------------------------ physicality *)
Definition symF n (F : nat -> nat -> R) := forall i j, (i < n)%nat -> (j < n)%nat -> F i j = F j i.
Definition uncert d hbar (F : nat -> nat -> R) :=
  forall u v, 0 <= rbil (2 * d) F u u + rbil (2 * d) F v v - 2 * hbar * romg d u v.
(* state.py:_validate_cov as a quadratic-form statement *)
Definition PhysF d hbar F := symF (2 * d) F /\ uncert d hbar F.
Definition Phys d hbar (M : list (list R)) := PhysF d hbar (rget M).
(* S Omega S^T = Omega as a statement about forms *)
Definition symplF d (S : nat -> nat -> R) :=
  forall u v, romg d (rtmv (2 * d) S u) (rtmv (2 * d) S v) = romg d u v.
(* Y + i Omega - i X Omega X^T >= 0 *)
Definition chan_ok d (X Y : nat -> nat -> R) :=
  symF (2 * d) Y /\
  forall u v, 0 <= rbil (2 * d) Y u u + rbil (2 * d) Y v v
                  - 2 * (romg d u v - romg d (rtmv (2 * d) X u) (rtmv (2 * d) X v)).

Lemma PhysF_ext d hbar F G :
  (forall i j, (i < 2 * d)%nat -> (j < 2 * d)%nat -> F i j = G i j) -> PhysF d hbar F -> PhysF d hbar G.
Proof.
  intros H [Hs Hu]. split.
  - intros i j Hi Hj. rewrite <- !H by assumption. apply Hs; assumption.
  - intros u v. rewrite <- !(bil_ext _ F G) by assumption. apply Hu.
Qed.

Lemma get_mk n m f i j : (i < n)%nat -> (j < m)%nat -> rget (mk n m f) i j = f i j.
Proof.
  intros Hi Hj. unfold get, mk.
  rewrite (nth_indep _ nil (map (fun j => f 0%nat j) (seq 0 m))) by (rewrite map_length, seq_length; lia).
  rewrite (map_nth (fun i => map (fun j => f i j) (seq 0 m)) (seq 0 n) 0%nat i).
  rewrite seq_nth by lia. simpl.
  rewrite (nth_indep _ 0 (f i 0%nat)) by (rewrite map_length, seq_length; lia).
  rewrite (map_nth (fun j => f i j) (seq 0 m) 0%nat j).
  rewrite seq_nth by lia. reflexivity.
Qed.

Lemma fcong_sym n S F : symF n F -> symF n (fcong ROps n S F).
Proof.
  intros HF i j _ _. unfold fcong, fmul, ftr. cbn.
  rewrite (sumn_ext n _ (fun l => rsum n (fun k => S i k * F k l * S j l))).
  2:{ intros l _. rewrite sumn_scale_r. reflexivity. }
  rewrite sumn_swap. apply sumn_ext; intros k Hk.
  rewrite sumn_scale_r. apply sumn_ext; intros l Hl. cbn. rewrite (HF k l) by assumption. ring.
Qed.

(* a matrix identity S Omega S^T = Omega (what the check evaluates) gives the form identity *)
Lemma symplF_of_matrix d S :
  (forall i j, (i < 2 * d)%nat -> (j < 2 * d)%nat ->
     fcong ROps (2 * d) S (omegaF ROps) i j = omegaF ROps i j) -> symplF d S.
Proof.
  intros H u v. rewrite <- !omg_bil. rewrite <- bil_cong. apply bil_ext. exact H.
Qed.

(* 1. symplectic congruence preserves physicality *)
Theorem gauss_gate_preserves_phys d hbar S F :
  symplF d S -> PhysF d hbar F -> PhysF d hbar (fcong ROps (2 * d) S F).
Proof.
  intros HS [Hs Hu]. split.
  - apply fcong_sym; assumption.
  - intros u v. rewrite !bil_cong. rewrite <- (HS u v). apply Hu.
Qed.

(* 2. a channel satisfying the complete-positivity condition preserves physicality *)
Theorem channel_preserves_phys d hbar X Y F :
  0 <= hbar -> chan_ok d X Y -> PhysF d hbar F ->
  PhysF d hbar (fadd ROps (fcong ROps (2 * d) X F) (fscale ROps hbar Y)).
Proof.
  intros Hh [Ys Yu] [Hs Hu]. split.
  - intros i j Hi Hj. unfold fadd, fscale.
    rewrite (fcong_sym _ X F Hs i j Hi Hj), (Ys i j Hi Hj). reflexivity.
  - intros u v. rewrite !bil_add, !bil_scale, !bil_cong.
    specialize (Hu (rtmv (2 * d) X u) (rtmv (2 * d) X v)). specialize (Yu u v).
    cbn in *. nra.
Qed.

(* vacuum and thermal covariances *)
Lemma diag_phys d (c : nat -> R) :
  (forall k, (k < d)%nat -> 1 <= c k) ->
  PhysF d 1 (fun i j => if Nat.eqb i j then c (Nat.div2 i) else 0).
Proof.
  intros Hc. split.
  - intros i j _ _. destruct (Nat.eqb_spec i j) as [->|]; [rewrite Nat.eqb_refl; reflexivity|].
    destruct (Nat.eqb_spec j i); [lia|reflexivity].
  - intros u v.
    rewrite !(bil_diag (2 * d) (fun i => c (Nat.div2 i))). rewrite !sumn_pairs.
    unfold omg. rewrite sumn_scale_l. rewrite <- sumn_add, <- sumn_sub.
    apply sumn_nonneg; intros k Hk. cbn -[Nat.mul Nat.div2].
    replace (2 * k + 1)%nat with (S (2 * k)) by lia.
    rewrite Nat.div2_succ_double, Nat.div2_double.
    specialize (Hc k Hk).
    set (a := u (2 * k)%nat). set (b := u (S (2 * k))). set (e := v (2 * k)%nat). set (g := v (S (2 * k))).
    assert (H1: 0 <= (a - g) * (a - g) + (b + e) * (b + e)).
    { pose proof (Rle_0_sqr (a - g)). pose proof (Rle_0_sqr (b + e)). unfold Rsqr in *. lra. }
    assert (H2: 0 <= (c k - 1) * (a * a + b * b + e * e + g * g)).
    { apply Rmult_le_pos; [lra|].
      pose proof (Rle_0_sqr a). pose proof (Rle_0_sqr b). pose proof (Rle_0_sqr e).
      pose proof (Rle_0_sqr g). unfold Rsqr in *. lra. }
    lra.
Qed.
Lemma phys_scale d hbar F : 0 <= hbar -> PhysF d 1 F -> PhysF d hbar (fscale ROps hbar F).
Proof.
  intros Hh [Hs Hu]. split.
  - intros i j Hi Hj. unfold fscale. cbn. rewrite (Hs i j Hi Hj). reflexivity.
  - intros u v. rewrite !bil_scale. specialize (Hu u v). nra.
Qed.
Lemma vacuum_phys d hbar : 0 <= hbar -> PhysF d hbar (fscale ROps hbar (fid ROps)).
Proof.
  intros Hh. apply phys_scale; [assumption|].
  apply (diag_phys d (fun _ => 1)). intros; lra.
Qed.
(* Thermal: cov = diag(2 * repeat(nbar, 2) + 1) with nbar_k >= 0 *)
Theorem thermal_phys d (nbar : nat -> R) : (forall k, (k < d)%nat -> 0 <= nbar k) ->
  PhysF d 1 (fun i j => if Nat.eqb i j then 2 * nbar (Nat.div2 i) + 1 else 0).
Proof.
  intros H. apply (diag_phys d (fun k => 2 * nbar k + 1)). intros k Hk. specialize (H k Hk). lra.
Qed.

(* ------------------------------------------------------------------ programs *)
Definition valid_instr d (i : ginstr (A:=R)) : Prop :=
  match i with
  | GVacuum => True
  | GCov c => PhysF d 1 (rget c)
  | GMean _ => True
  | GLinear Sm => symplF d (rget Sm)
  | GDisp _ => True
  | GChannel X Y => chan_ok d (rget X) (rget Y)
  end.

Lemma symplF_ext d S S' :
  (forall i j, (i < 2 * d)%nat -> (j < 2 * d)%nat -> S i j = S' i j) -> symplF d S -> symplF d S'.
Proof.
  intros H HS u v. rewrite <- (HS u v).
  assert (E: forall w k, (k < 2 * d)%nat -> rtmv (2 * d) S' w k = rtmv (2 * d) S w k).
  { intros w k Hk. apply sumn_ext; intros i Hi. rewrite H by assumption. reflexivity. }
  unfold omg. apply sumn_ext; intros k Hk. cbn -[Nat.mul]. rewrite !E by lia. reflexivity.
Qed.

Lemma gstep_phys d hbar st i :
  0 < hbar -> valid_instr d i -> Phys d hbar (snd st) -> Phys d hbar (snd (gstep ROps d hbar st i)).
Proof.
  intros Hh Hv Hp. destruct st as [mu sg]. unfold Phys in *.
  destruct i; cbn [gstep snd valid_instr] in *.
  - (* vacuum *)
    eapply PhysF_ext; [|apply (vacuum_phys d hbar); lra].
    intros i j Hi Hj. cbn [snd gvac]. rewrite get_mk by assumption. reflexivity.
  - (* covariance / thermal *)
    eapply PhysF_ext; [|apply (phys_scale d hbar _ (Rlt_le _ _ Hh) Hv)].
    intros i j Hi Hj. unfold lscale. rewrite get_mk by assumption. reflexivity.
  - assumption.
  - (* linear gate *)
    eapply PhysF_ext; [|apply (gauss_gate_preserves_phys d hbar _ _ Hv Hp)].
    intros i j Hi Hj. unfold lcong. rewrite get_mk by assumption. reflexivity.
  - assumption.
  - (* channel *)
    eapply PhysF_ext; [|apply (channel_preserves_phys d hbar _ _ _ (Rlt_le _ _ Hh) Hv Hp)].
    intros i j Hi Hj. unfold ladd, lcong, lscale. rewrite get_mk by assumption.
    unfold fadd, fscale. rewrite !get_mk by assumption. reflexivity.
Qed.

Lemma gtrace_phys d hbar p : 0 < hbar -> Forall (valid_instr d) p -> forall st,
  Phys d hbar (snd st) -> Forall (fun s => Phys d hbar (snd s)) (gtrace ROps d hbar st p).
Proof.
  intros Hh. induction p as [|i r IH]; intros Hv st Hp; simpl; [constructor|].
  inversion Hv; subst. constructor.
  - apply gstep_phys; assumption.
  - apply IH; [assumption|]. apply gstep_phys; assumption.
Qed.

(* the state after EVERY instruction of any valid program is physical, for every hbar > 0 *)
Theorem gauss_program_phys d hbar p :
  0 < hbar -> Forall (valid_instr d) p ->
  Forall (fun s => Phys d hbar (snd s)) (grun ROps d hbar p).
Proof.
  intros Hh Hv. apply gtrace_phys; try assumption.
  unfold Phys. eapply PhysF_ext; [|apply (vacuum_phys d hbar); lra].
  intros i j Hi Hj. cbn [snd gvac]. rewrite get_mk by assumption. reflexivity.
Qed.

(* non-vacuity *)
Lemma vacuum_is_phys : Phys 1 2 (snd (gvac ROps 1 2)).
Proof.
  unfold Phys. eapply PhysF_ext; [|apply (vacuum_phys 1 2); lra].
  intros i j Hi Hj. cbn [snd gvac]. rewrite get_mk by assumption. reflexivity.
Qed.
(* and the predicate is not trivially true: half the vacuum noise violates it *)
Lemma half_vacuum_not_phys : ~ PhysF 1 2 (fscale ROps 1 (fid ROps)).
Proof.
  intros [_ H]. specialize (H (fun i => if Nat.eqb i 0 then 1 else 0) (fun i => if Nat.eqb i 1 then 1 else 0)).
  unfold bil, omg, fscale, fid in H. cbn in H. lra.
Qed.
