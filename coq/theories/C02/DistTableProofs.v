(* C02 — the post-selection probability table of the distinguishable photons
   (sampling.py:_calculate_dist_postselection_probability_table, distinct buffers) is the law of
   the number of photons landing in every post-selected mode, by induction over the photons. *)
From Coq Require Import Reals Lra List Bool Arith Lia RealField.
From PV Require Import Base.CasesLib C02.DistModel C02.DistProofs C02.PostselectModel
  C02.TruncPolyModel C02.TruncPolyProofs C02.ImperfectModel C02.ShotsProofs.
Import ListNotations.
Open Scope R_scope.

(* v[j] += 1 *)
Fixpoint inc_nat (j : nat) (v : list nat) : list nat :=
  match v, j with
  | [], _ => []
  | x :: r, O => S x :: r
  | x :: r, S j' => x :: inc_nat j' r
  end.

(* independent semantics: one distinguishable photon lands in post-selected axis j with
   probability q_j and anywhere else (another mode, or lost) with probability 1 - sum q *)
Definition landing (q : list R) : rdist (option nat) :=
  (None, 1 - rsum q) :: combine (map Some (seq 0 (length q))) q.

Definition bump_axis (o : option nat) (v : list nat) : list nat :=
  match o with None => v | Some j => inc_nat j v end.

(* the counts in the k post-selected modes after all photons of the list have landed *)
Fixpoint place (k : nat) (particles : list (list R)) : rdist (list nat) :=
  match particles with
  | [] => dret (repeat O k)
  | q :: rest => dbind (landing q) (fun o => dmap (bump_axis o) (place k rest))
  end.

Definition counts_are (r : list nat) : list nat -> bool := fun v => idx_eqb v r.

Lemma idx_eqb_sym : forall a b, idx_eqb a b = idx_eqb b a.
Proof.
  induction a as [|x a IH]; intros [|y b]; simpl; auto. rewrite IH, Nat.eqb_sym. reflexivity.
Qed.

Lemma dec_at_cons_S : forall j x r, dec_at (S j) (x :: r) = x :: dec_at j r.
Proof. reflexivity. Qed.

Lemma inc_event : forall j v r, (j < length r)%nat ->
  idx_eqb (inc_nat j v) r = (1 <=? nth j r O)%nat && idx_eqb v (dec_at j r).
Proof.
  induction j as [|j IH]; intros v r H; destruct r as [|x r]; simpl in H; try lia.
  - destruct v as [|y v]; simpl.
    + rewrite andb_false_r. reflexivity.
    + unfold dec_at. simpl. destruct x as [|x]; simpl; [reflexivity|].
      destruct (Nat.eqb y x); reflexivity.
  - destruct v as [|y v].
    + simpl. rewrite andb_false_r. reflexivity.
    + rewrite dec_at_cons_S. simpl inc_nat. simpl idx_eqb. simpl nth.
      rewrite (IH v r) by lia.
      destruct (Nat.eqb y x); destruct (1 <=? nth j r O)%nat; reflexivity.
Qed.

Lemma mass_and_const : forall A (b : bool) (f : A -> bool) (d : rdist A),
  mass d (fun a => b && f a) = if b then mass d f else 0.
Proof.
  intros. destruct b; simpl.
  - apply mass_ext. reflexivity.
  - apply mass_false.
Qed.

Lemma length_set_nth : forall i v l, length (set_nth i v l) = length l.
Proof. intros i v l; revert i; induction l as [|x l IH]; intros [|i]; simpl; auto. Qed.

Lemma length_dec_at : forall j r, length (dec_at j r) = length r.
Proof. intros. unfold dec_at. apply length_set_nth. Qed.

Theorem trunc_mul_correct_R : forall (p : arr RN) c ls idx,
  mul_lin (N:=RN) false p c ls idx = product_coeff (N:=RN) p c ls idx.
Proof. exact (trunc_mul_correct R 0 1 Rplus Rmult Rminus Rdiv Ropp Rleb RTheory). Qed.

Section Table.
  Variable k : nat.

  (* the sum over the post-selected axes of one photon, against the loop of the array code *)
  Lemma landing_terms : forall (Tb : arr RN) (D : rdist (list nat)) (r : list nat),
    (forall r', length r' = length r -> Tb r' = mass D (counts_are r')) ->
    forall (q : list R) s, (s + length q <= length r)%nat ->
    rsum (map (fun ap : option nat * R => snd ap * mass (dmap (bump_axis (fst ap)) D) (counts_are r))
              (combine (map Some (seq s (length q))) q))
    = lin_terms (N:=RN) Tb r s q.
  Proof.
    intros Tb D r HT q. induction q as [|w q IH]; intros s Hs; [reflexivity|].
    simpl length. simpl seq. simpl map at 2. simpl combine. rewrite map_cons, rsum_cons.
    simpl length in Hs. rewrite IH by lia. cbn [fst snd lin_terms].
    f_equal. rewrite mass_dmap. unfold bump_axis, counts_are.
    rewrite (mass_ext _ _ (fun v => (1 <=? nth s r O)%nat && idx_eqb v (dec_at s r))).
    - rewrite mass_and_const. destruct (1 <=? nth s r O)%nat.
      + rewrite HT by apply length_dec_at. reflexivity.
      + (nr; lra).
    - intros v. apply inc_event. lia.
  Qed.

  Theorem dist_table_head : forall (particles : list (list R)) (r : list nat),
    length r = k -> Forall (fun q => length q = k) particles ->
    hd (delta (N:=RN) k) (dist_table (N:=RN) k particles) r = mass (place k particles) (counts_are r).
  Proof.
    induction particles as [|q rest IH]; intros r Hr HF.
    - simpl. rewrite mass_dret. unfold delta, counts_are. rewrite idx_eqb_sym. reflexivity.
    - inversion HF as [|? ? Hq HF']; subst.
      cbn [dist_table hd]. rewrite trunc_mul_correct_R. unfold product_coeff.
      cbn [place]. rewrite mass_dbind. unfold landing. rewrite map_cons, rsum_cons. cbn [fst snd].
      pose proof (landing_terms (hd (delta (N:=RN) (length r)) (dist_table (N:=RN) (length r) rest))
                                (place (length r) rest) r) as HL.
      assert (HT : forall r', length r' = length r ->
                hd (delta (N:=RN) (length r)) (dist_table (N:=RN) (length r) rest) r'
                = mass (place (length r) rest) (counts_are r')).
      { intros r' Hr'. apply IH; [exact Hr' | exact HF']. }
      assert (Hle : (0 + length q <= length r)%nat) by lia.
      specialize (HL HT q O Hle).
      cbv beta.
      rewrite HL.
      rewrite mass_dmap. unfold bump_axis at 1.
      rewrite (IH r eq_refl HF'). reflexivity.
  Qed.

  (* every entry of the table: entry i is the law of the photons i, i+1, ... *)
  Corollary dist_table_correct : forall (particles : list (list R)) (i : nat) (r : list nat),
    length r = k -> Forall (fun q => length q = k) particles -> (i <= length particles)%nat ->
    nth i (dist_table (N:=RN) k particles) (delta (N:=RN) k) r
    = mass (place k (skipn i particles)) (counts_are r).
  Proof.
    induction particles as [|q rest IH]; intros i r Hr HF Hi.
    - destruct i; simpl in Hi; try lia. apply (dist_table_head [] r Hr HF).
    - destruct i as [|i].
      + apply (dist_table_head (q :: rest) r Hr HF).
      + inversion HF; subst. simpl skipn. cbn [dist_table nth]. apply IH; auto. simpl in Hi. lia.
  Qed.
End Table.
