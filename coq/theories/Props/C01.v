(* C01 — All bosonic simulators agree on photon-number statistics (algebraic core).
   Only statements closed by [exact]; proofs live in C01/. *)
From Coq Require Import ZArith QArith List Ring Reals.
From PV Require Import Comb.FockModel C16.IndexModel C16.IndexProofs C16.ApplyProofs C16.GateSem
  C08.PhysModel C08.PhysProofs C08.FockProofs
  C01.PermModel C01.PermProofs C01.TableProofs C01.SymProofs C01.EmbedModel C01.EmbedProofs
  C01.OnModesProofs C01.PruneModel C01.PruneProofs C01.PbkProofs C01.GaussZ.
Import ListNotations.
Local Open Scope nat_scope.

(* the Laplace recurrence that builds the Fock-space representation of an interferometer
   (unnormalised: B(t,s) = sqrt(t! s!) <t|U|s>) is the permanent of U with row i repeated
   t_i times and column j repeated s_j times: every number of modes, every particle
   number n, every matrix U over every commutative ring *)
Theorem C01_fock_rep_is_permanent :
  forall (A : Type) (a0 a1 : A) (aadd amul asub : A -> A -> A) (aopp : A -> A),
  ring_theory a0 a1 aadd amul asub aopp (@eq A) ->
  forall (U : list (list A)) (n : nat) (t s : list nat),
  total t = n ->
  repB A a0 a1 aadd amul U n t s = perm_mult A a0 a1 aadd amul U t s.
Proof. exact fock_rep_is_permanent. Qed.
Print Assumptions C01_fock_rep_is_permanent.

(* the same at the level of the code's tables (calculate_interferometer_helper_indices +
   calculate_interferometer_on_fock_space, unnormalised): for every d >= 1, every cutoff
   (1 and 2 included: the repaired code) and every sector n the code produces, the entry
   of the n-th matrix at the sub-space indices of t and s is that permanent *)
Theorem C01_rep_tables_hold_the_permanent :
  forall (A : Type) (a0 a1 : A) (aadd amul asub : A -> A -> A) (aopp : A -> A),
  ring_theory a0 a1 aadd amul asub aopp (@eq A) ->
  forall (U : list (list A)) (d cutoff n : nat) (t s : list nat),
  n < Nat.max cutoff 2 -> validN (S d) n t -> validN (S d) n s ->
  lookup A a0 (nth n (rep_tables A a0 a1 aadd amul U (S d) cutoff) []) (sidx t) (sidx s) =
  perm_mult A a0 a1 aadd amul U t s.
Proof. exact rep_tables_permanent. Qed.
Print Assumptions C01_rep_tables_hold_the_permanent.

(* the sub-space index used by those tables addresses the enumeration of the sector *)
Theorem C01_subspace_index_addresses_sector :
  forall d n v, validN (S d) n v ->
  sidx v < length (sectorN (S d) n) /\ nth (sidx v) (sectorN (S d) n) [] = v.
Proof. exact sidx_lookup. Qed.
Print Assumptions C01_subspace_index_addresses_sector.

(* SLOS (photon-by-photon state-vector construction of the passive simulator, without
   post-selection pruning) computes the same permanent with multiplicities: every number of
   modes, every input s, every output t with as many photons, every U *)
Theorem C01_slos_is_permanent :
  forall (A : Type) (a0 a1 : A) (aadd amul asub : A -> A -> A) (aopp : A -> A),
  ring_theory a0 a1 aadd amul asub aopp (@eq A) ->
  forall (U : list (list A)) (s t : list nat),
  total t = total s ->
  slos_amp A a0 a1 aadd amul U s t = perm_mult A a0 a1 aadd amul U t s.
Proof. exact slos_is_permanent. Qed.
Print Assumptions C01_slos_is_permanent.

(* and the vector the code computes (table over the sector, gather form), read at the
   sub-space index of t, is that function *)
Theorem C01_slos_vector_is_slos_amp :
  forall (A : Type) (a0 a1 : A) (aadd amul : A -> A -> A)
         (U : list (list A)) (d : nat) (s t : list nat),
  validN (S d) (total s) t ->
  nth (sidx t) (slos_vector A a0 a1 aadd amul U (S d) s) a0 = slos_amp A a0 a1 aadd amul U s t.
Proof. exact slos_vector_correct. Qed.
Print Assumptions C01_slos_vector_is_slos_amp.

(* the permanent in list form is invariant under transposition and under any permutation
   of the columns (the two facts behind the SLOS theorem) *)
Theorem C01_permanent_transpose :
  forall (A : Type) (a0 a1 : A) (aadd amul asub : A -> A -> A) (aopp : A -> A),
  ring_theory a0 a1 aadd amul asub aopp (@eq A) ->
  forall (e : nat -> nat -> A) (qs ps : list nat), length ps = length qs ->
  permL A a0 a1 aadd amul e ps qs = permL A a0 a1 aadd amul (fun q p => e p q) qs ps.
Proof. exact permL_transpose. Qed.
Print Assumptions C01_permanent_transpose.

(* passive_stats_agree, core: the pure/mixed-Fock recurrence and the passive simulator's
   recurrence give the same unnormalised amplitude for every U, s, t *)
Theorem C01_rep_equals_slos :
  forall (A : Type) (a0 a1 : A) (aadd amul asub : A -> A -> A) (aopp : A -> A),
  ring_theory a0 a1 aadd amul asub aopp (@eq A) ->
  forall (U : list (list A)) (s t : list nat),
  total t = total s ->
  repB A a0 a1 aadd amul U (total t) t s = slos_amp A a0 a1 aadd amul U s t.
Proof. exact rep_equals_slos. Qed.
Print Assumptions C01_rep_equals_slos.

(* ---- rep_on_modes ---------------------------------------------------------------------
   the permanent (with multiplicities) of the d x d matrix that embeds a k x k block G at an
   ordered subset ms of the modes (passive/simulation_steps.py:_apply_matrix_on_modes)
   factorises: zero unless the occupation numbers outside ms agree, and then
   (product of their factorials) x permanent of G on the occupation numbers gathered at ms *)
Theorem C01_embedded_permanent_factorises :
  forall (A : Type) (a0 a1 : A) (aadd amul asub : A -> A -> A) (aopp : A -> A),
  ring_theory a0 a1 aadd amul asub aopp (@eq A) ->
  forall (G : list (list A)) (d : nat) (ms : list nat), modes_ok d ms ->
  forall (n : nat) (v v' : list nat),
  length v = d -> length v' = d -> total v = n -> total v' = n ->
  PM A a0 a1 aadd amul (embed A a0 G a1 ms d) v v' = embed_formula A a0 a1 aadd amul G d ms v v'.
Proof. exact embed_PM. Qed.
Print Assumptions C01_embedded_permanent_factorises.

Theorem C01_PM_is_perm_mult :
  forall (A : Type) (a0 a1 : A) (aadd amul : A -> A -> A) (U : list (list A)) (t s : list nat),
  PM A a0 a1 aadd amul U t s = perm_mult A a0 a1 aadd amul U t s.
Proof. exact PM_perm_mult. Qed.
Print Assumptions C01_PM_is_perm_mult.

(* what the Fock simulators execute (C16: apply_index_list through index_list ms d c is
   gate_apply): with the sector tables of the k x k block, the new entry at v is the sum over
   the occupation numbers u' on ms of perm(G; v|ms, u') x old entry at v[ms := u'] ... *)
Theorem C01_apply_tables_on_modes :
  forall (A : Type) (a0 a1 : A) (aadd amul asub : A -> A -> A) (aopp : A -> A),
  ring_theory a0 a1 aadd amul asub aopp (@eq A) ->
  forall (G : list (list A)) (d k c : nat) (ms : list nat) (st : list A),
  modes_ok d ms -> length ms = S k -> length G = S k -> 2 <= c ->
  length st = length (basis d c) ->
  forall v : list Z, In v (basis d c) ->
  nth (Z.to_nat (fock_index v))
      (apply_index_list A a0 aadd amul (index_list ms d c) (rep_tables A a0 a1 aadd amul G (S k) c) st) a0
  = sumA A a0 aadd
      (fun u' => amul (PM A a0 a1 aadd amul G (toN (gz v ms)) (toN u'))
                      (sem_psi A a0 st (scatter v ms u')))
      (sector (S k) (Z.to_nat (sumZ (gz v ms)))).
Proof. exact apply_tables_on_modes. Qed.
Print Assumptions C01_apply_tables_on_modes.

(* ... which, times the factorials of the spectator occupation numbers, is the permanent
   formula of the embedded d x d matrix *)
Theorem C01_apply_tables_is_embedded_permanent :
  forall (A : Type) (a0 a1 : A) (aadd amul asub : A -> A -> A) (aopp : A -> A),
  ring_theory a0 a1 aadd amul asub aopp (@eq A) ->
  forall (G : list (list A)) (d k c : nat) (ms : list nat) (st : list A),
  modes_ok d ms -> length ms = S k -> length G = S k -> 2 <= c ->
  length st = length (basis d c) ->
  forall v : list Z, In v (basis d c) ->
  amul (nA A a0 a1 aadd (fact_list (toN (gz v (aux_modes d ms)))))
       (nth (Z.to_nat (fock_index v))
            (apply_index_list A a0 aadd amul (index_list ms d c) (rep_tables A a0 a1 aadd amul G (S k) c) st) a0)
  = sumA A a0 aadd
      (fun u' => amul (PM A a0 a1 aadd amul (embed A a0 G a1 ms d) (toN v) (toN (scatter v ms u')))
                      (sem_psi A a0 st (scatter v ms u')))
      (sector (S k) (Z.to_nat (sumZ (gz v ms)))).
Proof. exact apply_tables_is_embedded_permanent. Qed.
Print Assumptions C01_apply_tables_is_embedded_permanent.

(* ---- SLOS with post-selection pruning --------------------------------------------------
   every predecessor of an entry kept at level k+1 is kept at level k: a pruned basis entry
   never contributes to a kept one *)
Theorem C01_prune_step :
  forall (cons : list (nat * nat)) (lim i : nat) (t : list nat),
  NoDup (map fst cons) -> kept cons lim t = true -> kept cons (S lim) (dec_at i t) = true.
Proof. exact prune_step. Qed.
Print Assumptions C01_prune_step.

(* the pruned recurrence equals the unpruned one on every kept entry, at every level *)
Theorem C01_slos_pruned_is_slos :
  forall (A : Type) (a0 a1 : A) (aadd amul : A -> A -> A)
         (U : list (list A)) (cons : list (nat * nat)) (n : nat),
  NoDup (map fst cons) -> forall sched t : list nat,
  length sched <= n -> kept cons (n - length sched) t = true ->
  slosP A a0 a1 aadd amul U cons n sched t = slosB A a0 a1 aadd amul U sched t.
Proof. exact slosP_correct. Qed.
Print Assumptions C01_slos_pruned_is_slos.

(* and the vector over the pruned basis that the code computes (index_map lookups, gather
   form) is, entry by entry, the unpruned SLOS amplitude (= the permanent, by
   C01_slos_is_permanent) *)
Theorem C01_slos_vector_pruned :
  forall (A : Type) (a0 a1 : A) (aadd amul : A -> A -> A)
         (U : list (list A)) (d : nat) (cons : cons_t) (n : nat),
  NoDup (map fst cons) -> forall s : list nat,
  total s = n -> deficit cons (repeat 0 (S d)) <= n ->
  slos_vector_pruned A a0 a1 aadd amul U (S d) cons s
  = map (slos_amp A a0 a1 aadd amul U s) (bases_spec (S d) cons n n).
Proof. exact slos_vector_pruned_correct. Qed.
Print Assumptions C01_slos_vector_pruned.

(* the recursive enumeration of partitions_bounded_k (_fill_partitions_bounded_k_recursive:
   descending values per box, early exit when the accumulated difference exceeds k_limit,
   last box takes the rest) lists exactly the vectors of the sector that satisfy the bounds
   and the difference condition, in the order of the sector - for all bounds / constrained
   flags / targets with bound <= target on constrained boxes, every d >= 1, every particle
   number and every k_limit *)
Theorem C01_partitions_bounded_k_enumeration :
  forall (d : nat) (bs : list nat) (cs : list bool) (ts : list nat) (rem : nat) (diff lim : Z),
  length bs = S d -> length cs = S d -> length ts = S d -> okbt bs cs ts ->
  pbk_fill bs cs ts rem diff lim = filter (Pb bs cs ts diff lim) (sectorN (S d) rem).
Proof. exact pbk_fill_is_filtered_sector. Qed.
Print Assumptions C01_partitions_bounded_k_enumeration.

(* ---- attenuator: on the diagonal the weights sum_k C(n,k) cos^{2n} tan^{2k} that
   redistribute the population of level n sum to one (over R; proved in C08) *)
Theorem C01_attenuator_trace : forall (c2 t2 : R) (n : nat),
  (c2 * (1 + t2) = 1)%R -> sumn ROps (S n) (fun k => att_weight ROps c2 t2 n k) = 1%R.
Proof. exact attenuator_weights_sum. Qed.
Print Assumptions C01_attenuator_trace.

(* non-vacuity: the hypotheses are satisfiable (Z is such a ring) and the objects are the
   expected ones on concrete inputs *)
Example C01_ring_exists : ring_theory 0%Z 1%Z Z.add Z.mul Z.sub Z.opp (@eq Z).
Proof. exact InitialRing.Zth. Qed.
Example C01_perm_2x2 :
  perm_mult Z 0%Z 1%Z Z.add Z.mul [[1;2];[3;4]]%Z [1;1] [1;1] = 10%Z.
Proof. vm_compute. reflexivity. Qed.
Example C01_perm_repeated_row :
  perm_mult Z 0%Z 1%Z Z.add Z.mul [[1;2];[3;4]]%Z [2;0] [1;1] = 4%Z.
Proof. vm_compute. reflexivity. Qed.
Example C01_table_entry :
  lookup Z 0%Z (nth 3 (rep_tables Z 0%Z 1%Z Z.add Z.mul [[1;2];[3;4]]%Z 2 4) [])
         (sidx [2;1]) (sidx [1;2]) = 56%Z
  /\ slos_amp Z 0%Z 1%Z Z.add Z.mul [[1;2];[3;4]]%Z [1;2] [2;1] = 56%Z
  /\ validN 2 3 [2;1].
Proof. vm_compute. repeat split. Qed.
