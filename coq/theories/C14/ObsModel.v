(* Models of the observables of GaussianState that are computed from the ladder moments
   (_m, _C, _G) only, each as "abstract numerical kernel applied to the arrays the code
   passes to it".  Definitions only.

   piquasso/_simulators/gaussian/state.py : _is_displaced, _get_density_matrix_calculation
       (density_matrix, fock_probabilities, get_particle_detection_probability),
       get_parity_operator_expectation_value, get_phaseshifter_expectation_value,
       variance_photon_number, purify *)
From Coq Require Import List Arith Bool.
From PV Require Import C14.ReprModel.
Import ListNotations.

Section Obs.
Context {A : Type} (K : ops A).
Local Notation r0 := (o0 K).
Local Notation r1 := (o1 K).
Local Infix "+!" := (oadd K) (at level 50, left associativity).
Local Infix "*!" := (omul K) (at level 40, left associativity).
Local Infix "-!" := (osub K) (at level 50, left associativity).

Definition csub (x y : Cx A) : Cx A := (re x -! re y, im x -! im y).
(* complex sum_{k<n} f k *)
Definition csumn (n : nat) (f : nat -> Cx A) : Cx A :=
  (sumn K n (fun k => re (f k)), sumn K n (fun k => im (f k))).

(* ---- state.py:_is_displaced reads self._m; _get_density_matrix_calculation hands
   complex_displacement and complex_covariance to (Non)DisplacedDensityMatrixCalculation.
   Everything after that (inv, det, hafnian / loop hafnian) is the kernel. ---- *)
Definition density_args (d : nat) (s : gstate A) : list (Cx A) * list (Cx A) * list (list (Cx A)) :=
  (tab1 d (gm s), tab1 (2 * d) (complex_displacement K d s), tab2 (2 * d) (complex_cov K d s)).

Section Kernels.
Variable R : Type.
Variable Occ : Type.      (* occupation numbers / basis: passed through unchanged *)
Variable Ang : Type.      (* the angles as given by the caller *)
Variable density_kernel : list (Cx A) -> list (Cx A) -> list (list (Cx A)) -> Occ -> R.
Variable parity_kernel : list (Cx A) -> list (list (Cx A)) -> R.
Variable phase_kernel : list (list (Cx A)) -> list (Cx A) -> list (Cx A) -> R.

(* density_matrix / fock_probabilities / get_particle_detection_probability *)
Definition density_model (d : nat) (s : gstate A) (occ : Occ) : R :=
  let '(m, mu, cov) := density_args d s in density_kernel m mu cov occ.

(* ---- state.py:get_parity_operator_expectation_value
     exp(-conj(mean) @ inv(cov) @ mean) / sqrt(det(cov)) ---- *)
Definition parity_model (d : nat) (s : gstate A) : R :=
  parity_kernel (tab1 (2 * d) (complex_displacement K d s)) (tab2 (2 * d) (complex_cov K d s)).
End Kernels.

(* ---- state.py:get_phaseshifter_expectation_value (formula of the abstract branch, which
   the repaired code uses for concrete angles too):  z = exp(1j*angles);
     A = diag(concat(1-z,1-z)/2); B = diag(concat(1+z,1+z)/2); M = cov @ A + B
     exp(-(conj(mean) @ A @ solve(M, mean))) / sqrt(det(M))
   M and the diagonal of A are algebraic; solve, det, exp, sqrt are the kernel. ---- *)
Definition ps_diagA (i2 : A) (d : nat) (z : cvec A) : cvec A :=
  fun j => cscale K i2 (csub (r1, r0) (concat d z z j)).
Definition ps_diagB (i2 : A) (d : nat) (z : cvec A) : cvec A :=
  fun j => cscale K i2 (cadd K (r1, r0) (concat d z z j)).
Definition ps_M (i2 : A) (d : nat) (s : gstate A) (z : cvec A) : cmat A :=
  fun i j => cadd K (cmul K (complex_cov K d s i j) (ps_diagA i2 d z j))
                    (if i =? j then ps_diagB i2 d z i else (r0, r0)).
Definition phaseshifter_model {R : Type}
  (kernel : list (list (Cx A)) -> list (Cx A) -> list (Cx A) -> R)
  (i2 : A) (d : nat) (s : gstate A) (z : cvec A) : R :=
  kernel (tab2 (2 * d) (ps_M i2 d s z)) (tab1 (2 * d) (ps_diagA i2 d z))
         (tab1 (2 * d) (complex_displacement K d s)).

(* ---- state.py:variance_photon_number (purely algebraic)
     m_outer = outer(m, m); G = _G + m_outer; C = _C + outer(conj(m), m)
     correlation_term = einsum("kj,jk", conj(G), G) + einsum("jk,kj", C, I + C)
                        + einsum("jj,kk", C, C) - 2*sum(abs(m_outer)**2)
     (correlation_term - mean_photon_number()**2).real ---- *)
Definition variance_photon_number (d : nat) (s : gstate A) : A :=
  let m := gm s in
  let Gp : cmat A := fun i j => cadd K (gG s i j) (cmul K (m i) (m j)) in
  let Cp : cmat A := fun i j => cadd K (gC s i j) (cmul K (cconj K (m i)) (m j)) in
  let t1 := csumn d (fun k => csumn d (fun j => cmul K (cconj K (Gp k j)) (Gp j k))) in
  let t2 := csumn d (fun j => csumn d (fun k => cmul K (Cp j k) (cadd K (ident K k j, r0) (Cp k j)))) in
  let t3 := csumn d (fun j => csumn d (fun k => cmul K (Cp j j) (Cp k k))) in
  let t4 := sumn K d (fun i => sumn K d (fun j =>
              let p := cmul K (m i) (m j) in re p *! re p +! im p *! im p)) in
  let mean := mean_photon_number K d s in
  re (csub (cadd K (cadd K t1 t2) t3) (r2 K *! t4, r0)) -! mean *! mean.

(* ---- state.py:purify
     cov = xpxp_covariance_matrix / hbar;  S, D = williamson(cov[ix_(p2x, p2x)])
     beta = (function of S, D);  purified_cov = block([[cov, beta], [beta, cov]])
     purification.xpxp_covariance_matrix = hbar * purified_cov
     purification.xpxp_mean_vector = concatenate([mean] * 2)
   The kernel maps the array handed to williamson to the matrix beta. ---- *)
Definition purify_williamson_arg (hbar ihbar : A) (d : nat) (s : gstate A) : list (list A) :=
  tab2 (2 * d) (fun i j => xpxp_cov K hbar d s (p2x d i) (p2x d j) *! ihbar).
Definition purify_model (beta_kernel : list (list A) -> mat A)
  (hbar ihbar rt2 sh isq i4 : A) (d : nat) (s : gstate A) : gstate A :=
  let cov : mat A := fun i j => xpxp_cov K hbar d s i j *! ihbar in
  let beta := beta_kernel (purify_williamson_arg hbar ihbar d s) in
  let mean := xpxp_mean K rt2 sh d s in
  set_xpxp K ihbar i4 isq (2 * d)
    (concat (2 * d) mean mean)
    (fun i j => hbar *! block (2 * d) cov beta beta cov i j).
End Obs.
