"""C10 implementation runner (JAX process): custom VJP of jax_extensions.perm, jax.jacrev / jit of
simulator outputs."""
import json
import os
import sys

import numpy as np

sys.path.insert(0, os.path.dirname(os.path.abspath(__file__)))


def uc(a):
    a = np.asarray(a)
    return np.stack([a.real, a.imag], axis=-1).tolist()


def main():
    req = json.load(sys.stdin)
    import jax

    jax.config.update("jax_enable_x64", True)
    import jax.numpy as jnp
    import piquasso as pq
    import c10_circuits as cc

    out = {"repo": os.path.dirname(os.path.dirname(pq.__file__))}
    try:
        from piquasso.jax_extensions import perm
    except Exception as e:  # extension not built
        perm = None
        out["perm_error"] = "%s: %s" % (type(e).__name__, str(e)[:200])
    res = []
    ct = 0.75 - 0.5j
    if perm is not None:
        jitted = {}
        for case in req.get("perm", []):
            r = {"ct": [ct.real, ct.imag]}
            try:
                a = np.asarray(case["A"], dtype=np.float64)
                A = jnp.asarray(a[..., 0] + 1j * a[..., 1], dtype=jnp.complex128)
                rows = jnp.asarray(case["r"], dtype=jnp.uint64)
                cols = jnp.asarray(case["c"], dtype=jnp.uint64)
                y, vjp = jax.vjp(lambda X: perm(X, rows, cols), A)
                r["value"] = [float(np.real(y)), float(np.imag(y))]
                r["vjp"] = uc(vjp(jnp.asarray(ct, dtype=jnp.complex128))[0])
                key = A.shape

                def g(X, rows, cols):
                    y, vjp = jax.vjp(lambda Z: perm(Z, rows, cols), X)
                    return vjp(jnp.asarray(ct, dtype=jnp.complex128))[0]

                if case.get("jit"):
                    if key not in jitted:
                        jitted[key] = jax.jit(g)
                    r["vjp_jit"] = uc(jitted[key](A, rows, cols))
            except Exception as e:
                r["error"] = "%s: %s" % (type(e).__name__, str(e)[:300])
            res.append(r)
    out["perm"] = res

    res = []
    for case in req.get("e2e", []):
        spec, theta = case["spec"], jnp.asarray(case["theta"], dtype=jnp.float64)
        r = {}
        conn = pq.JaxConnector()
        f = lambda th: jnp.real(cc.run(spec, th, conn, jnp))  # noqa: E731
        for mode in case.get("modes", ("jacrev", "jit_jacfwd")):
            try:
                if mode == "jacrev":
                    val = f(theta)
                    J = jax.jacrev(f)(theta)
                else:
                    val = jax.jit(f)(theta)
                    J = jax.jit(jax.jacfwd(f))(theta)
                r[mode] = {"value": np.asarray(val).tolist(), "jac": np.asarray(J).reshape(len(val), -1).tolist()}
            except Exception as e:
                r[mode] = {"error": "%s: %s" % (type(e).__name__, str(e)[:300])}
        res.append(r)
    out["e2e"] = res
    print(json.dumps(out))


main()
