(* C15 — the complex numbers as pairs of (Coq standard library) reals form a commutative ring
   with involution in the sense of MatProofs.RLaws, so every theorem of the development holds
   for complex matrices; clements_correct stated for complex unitaries. *)
From Coq Require Import List Arith Bool Reals Lra Ring.
From PV Require Import C15.ClementsModel C15.MatProofs C15.ClementsProofs C15.ClementsNulling
                       C15.EulerModel C15.AnglesProofs.
Import ListNotations.

Definition Cx : Type := (R * R)%type.
Local Open Scope R_scope.
Definition cx_add (a b : Cx) : Cx := (fst a + fst b, snd a + snd b).
Definition cx_sub (a b : Cx) : Cx := (fst a - fst b, snd a - snd b).
Definition cx_opp (a : Cx) : Cx := (- fst a, - snd a).
Definition cx_mul (a b : Cx) : Cx := (fst a * fst b - snd a * snd b, fst a * snd b + snd a * fst b).
Definition cx_conj (a : Cx) : Cx := (fst a, - snd a).

#[global] Instance CxOps : ROps Cx := {|
  r0 := (0, 0); r1 := (1, 0);
  radd := cx_add; rmul := cx_mul; rsub := cx_sub; ropp := cx_opp; rconj := cx_conj |}.

Ltac cx := intros; repeat match goal with x : Cx |- _ => destruct x end;
           unfold cx_add, cx_sub, cx_opp, cx_mul, cx_conj; simpl; f_equal; ring.

#[global] Instance CxLaws : RLaws CxOps.
Proof.
  constructor.
  - constructor; simpl; try (cx; fail).
  - simpl; cx.
  - simpl; cx.
  - simpl; cx.
  - simpl; cx.
  - simpl. unfold cx_conj. simpl. f_equal. ring.
  - simpl. unfold cx_conj. simpl. f_equal. ring.
Qed.

(* inverse_clements (clements U) = U for every complex unitary matrix U of every size, for every
   choice of _get_angles / np.angle satisfying the unit and nulling equations *)
Theorem clements_correct_complex :
  forall (angles : Cx -> Cx -> Cx * Cx * Cx) (phase : Cx -> Cx),
  (forall x y, let '(c, s, e) := angles x y in coef_ok c s e) ->
  (forall x y, let '(c, s, e) := angles x y in (e * s * x = c * y)%r) ->
  (forall z, (z * z^* = r1)%r -> phase z = z) ->
  forall d (U : mat Cx), unitary d U ->
  inverse_clements d (clements angles phase d U) = U.
Proof. intros angles phase H1 H2 H3. exact (clements_correct angles phase H1 H2 H3). Qed.

(* ------------------------------------------------------------------ concrete abs / angle / arctan *)
(* the characterisations assumed by AnglesProofs are satisfiable: the usual real functions *)
Definition cx_n2 (z : Cx) : R := fst z * fst z + snd z * snd z.
Definition cx_is0 (z : Cx) : bool :=
  if Req_EM_T (fst z) 0 then (if Req_EM_T (snd z) 0 then true else false) else false.
Definition cx_inv (z : Cx) : Cx := (fst z / cx_n2 z, - snd z / cx_n2 z).
Definition cx_abs (z : Cx) : Cx := (sqrt (cx_n2 z), 0).
Definition cx_expangle (z : Cx) : Cx :=
  if cx_is0 z then (1, 0) else (fst z / sqrt (cx_n2 z), snd z / sqrt (cx_n2 z)).
(* (cos, sin) of arctan t for real t *)
Definition cx_cs (a : Cx) : Cx * Cx :=
  let t := fst a in ((1 / sqrt (1 + t * t), 0), (t / sqrt (1 + t * t), 0)).

Lemma cx_n2_nonneg : forall z, 0 <= cx_n2 z.
Proof. intros [a b]. unfold cx_n2; simpl. nra. Qed.

Lemma cx_is0_true : forall z, cx_is0 z = true -> z = (0, 0).
Proof.
  intros [a b]. unfold cx_is0; simpl.
  destruct (Req_EM_T a 0); [|discriminate]. destruct (Req_EM_T b 0); [|discriminate].
  intros _. now subst.
Qed.

Lemma cx_is0_false_n2 : forall z, cx_is0 z = false -> cx_n2 z <> 0.
Proof.
  intros [a b]. unfold cx_is0, cx_n2; simpl.
  destruct (Req_EM_T a 0); [destruct (Req_EM_T b 0); [discriminate|]|]; intros _; nra.
Qed.

Lemma cx_sqrt_n2 : forall z, sqrt (cx_n2 z) * sqrt (cx_n2 z) = cx_n2 z.
Proof. intros. apply sqrt_sqrt, cx_n2_nonneg. Qed.

Lemma cx_is0_false : forall z, cx_is0 z = false -> (z * cx_inv z = r1)%r.
Proof.
  intros z Hz. pose proof (cx_is0_false_n2 z Hz) as Hn. destruct z as [a b].
  simpl. unfold cx_mul, cx_inv; simpl. unfold cx_n2 in *; simpl in *. f_equal; field; assumption.
Qed.

Lemma cx_abs_polar : forall z, (z = cx_abs z * cx_expangle z)%r.
Proof.
  intros z. unfold cx_expangle. destruct (cx_is0 z) eqn:Hz.
  - rewrite (cx_is0_true z Hz). simpl. unfold cx_mul, cx_abs, cx_n2; simpl.
    replace (0 * 0 + 0 * 0) with 0 by ring. rewrite sqrt_0. f_equal; ring.
  - pose proof (cx_is0_false_n2 z Hz) as Hn. pose proof (cx_sqrt_n2 z) as Hs.
    assert (Hq : sqrt (cx_n2 z) <> 0) by (intros E; rewrite E in Hs; lra).
    destruct z as [a b]. simpl. unfold cx_mul, cx_abs; simpl. f_equal; field; assumption.
Qed.

Lemma cx_exp_unit : forall z, (cx_expangle z * (cx_expangle z)^* = r1)%r.
Proof.
  intros z. unfold cx_expangle. destruct (cx_is0 z) eqn:Hz.
  - simpl. unfold cx_mul, cx_conj; simpl. f_equal; ring.
  - pose proof (cx_is0_false_n2 z Hz) as Hn. pose proof (cx_sqrt_n2 z) as Hs.
    assert (Hq : sqrt (cx_n2 z) <> 0) by (intros E; rewrite E in Hs; lra).
    destruct z as [a b]. simpl. unfold cx_mul, cx_conj; simpl. f_equal.
    + transitivity ((a * a + b * b) / (sqrt (cx_n2 (a, b)) * sqrt (cx_n2 (a, b)))); [field; assumption|].
      rewrite Hs. unfold cx_n2; simpl. field. exact Hn.
    + field; assumption.
Qed.

Lemma cx_abs_of_unit : forall z, (z * z^* = r1)%r -> cx_abs z = r1.
Proof.
  intros [a b] H. simpl in H. unfold cx_mul, cx_conj in H; simpl in H. injection H as H1 _.
  unfold cx_abs, cx_n2; simpl. replace (a * a + b * b) with 1 by lra. now rewrite sqrt_1.
Qed.

Lemma cx_cs_spec : forall z, let '(c, s) := cx_cs (cx_abs z) in
  (c^* = c /\ s^* = s /\ c * c + s * s = r1 /\ s = c * cx_abs z)%r.
Proof.
  intros z. unfold cx_cs, cx_abs; simpl. set (t := sqrt (cx_n2 z)).
  assert (Hp : 0 < 1 + t * t) by nra.
  pose proof (sqrt_sqrt (1 + t * t) (Rlt_le _ _ Hp)) as Hs.
  assert (Hq : sqrt (1 + t * t) <> 0) by (intros E; rewrite E in Hs; lra).
  unfold cx_conj, cx_mul, cx_add; simpl. repeat split; f_equal; try ring; try (field; assumption).
  transitivity ((1 + t * t) / (sqrt (1 + t * t) * sqrt (1 + t * t))); [field; assumption|].
  rewrite Hs. field. lra.
Qed.

(* fully concrete statement: with the standard real sqrt, division and decidable zero test,
   the Clements decomposition followed by its inverse reproduces every complex unitary *)
Theorem clements_correct_complex_concrete : forall d (U : mat Cx), unitary d U ->
  inverse_clements d
    (clements (get_angles cx_inv cx_is0 cx_abs cx_expangle cx_cs) (get_phase cx_expangle) d U) = U.
Proof.
  intros d U HU.
  exact (clements_correct_trig cx_inv cx_is0 cx_abs cx_expangle cx_cs
           cx_is0_true cx_is0_false cx_abs_polar cx_exp_unit cx_abs_of_unit cx_cs_spec d U HU).
Qed.
