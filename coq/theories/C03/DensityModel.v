(* C03 - mixed-state (density matrix) model of the particle-number measurement of the general
   Fock simulator with shots=None:
     _simulators/fock/general/simulation_steps.py:particle_number_measurement,
       _get_normalization (1 / p), _project_to_subspace, _get_remaining_density_matrix
     _simulators/fock/general/state.py:reduced, fock_probabilities_map (diagonal)
     _simulators/fock/simulation_steps.py:get_projection_operator_indices (rows and columns)
   A density matrix is a finitely supported map (ket, bra) -> entry, kept as a list; entries
   live in any type [A] with [tr : A -> Q], the real part that a diagonal entry contributes to
   the trace.  The code holds c * rho for a scale c that the model carries next to rho.
   Definitions only. *)
From Coq Require Import ZArith QArith List Bool Arith.
From PV Require Import C03.ExecModel C03.ProjectModel.
Import ListNotations.
Open Scope nat_scope.

Section Density.
  Variable A : Type.
  Variable tr : A -> Q.

  Definition dentry := ((vec * vec) * A)%type.
  Definition dstate := list dentry.
  Definition ket (p : dentry) : vec := fst (fst p).
  Definition bra (p : dentry) : vec := snd (fst p).

  (* what one entry contributes to the trace *)
  Definition dwt (p : dentry) : Q := if vec_eqb (ket p) (bra p) then tr (snd p) else 0%Q.
  (* the trace: state.norm / sum of fock_probabilities *)
  Definition dtrace (rho : dstate) : Q := fold_right (fun p acc => (dwt p + acc)%Q) 0%Q rho.

  (* _get_remaining_density_matrix: the block whose row and column index both carry the
     outcome s on the measured positions M, re-indexed by the other positions *)
  Definition dproject (d : nat) (M : list nat) (s : vec) (rho : dstate) : dstate :=
    map (fun p => ((select (aux M d) (ket p), select (aux M d) (bra p)), snd p))
        (filter (fun p => vec_eqb (select M (ket p)) s && vec_eqb (select M (bra p)) s) rho).

  (* outcomes of non-zero probability: p(s) = sum over the diagonal entries with outcome s;
     every listed diagonal entry is positive *)
  Definition doutcomes (M : list nat) (rho : dstate) : list vec :=
    vnodup (map (fun p => select M (ket p)) (filter (fun p => vec_eqb (ket p) (bra p)) rho)).

  Record dbranch := mkDB { db_out : vec; db_rho : dstate; db_freq : Q; db_reg : list nat;
                           db_scale : Q }.

  Definition dbranch_trace (b : dbranch) : Q := (db_scale b * dtrace (db_rho b))%Q.

  (* particle_number_measurement: p(s) = c * trace(block); new matrix = (1/p) * c * block;
     the executor multiplies p by the weight of the branch *)
  Definition dchild (L : list nat) (b : dbranch) (s : vec) : dbranch :=
    let reg := db_reg b in
    let M := remap_modes reg L in
    let blk := dproject (length reg) M s (db_rho b) in
    let p := (db_scale b * dtrace blk)%Q in
    mkDB (db_out b ++ s) blk (p * db_freq b)%Q (delete_modes_from_active reg M) (db_scale b / p)%Q.

  Definition dmeasure_branch (L : list nat) (b : dbranch) : list dbranch :=
    map (dchild L b) (doutcomes (remap_modes (db_reg b) L) (db_rho b)).

  Definition dmeasure (L : list nat) (bs : list dbranch) : list dbranch := flat_map (dmeasure_branch L) bs.
  Definition dmeasure_seq (Ls : list (list nat)) (bs : list dbranch) : list dbranch :=
    fold_left (fun acc L => dmeasure L acc) Ls bs.
  Definition dinitial (d : nat) (rho : dstate) : list dbranch := [mkDB [] rho 1%Q (seq 0 d) 1%Q].
End Density.
