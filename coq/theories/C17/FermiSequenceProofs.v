(* C17 - conservation of a class of basis indices (particle-number parity) by every gate
   sequence of the Fock-simulator model: induction over the gate list on state vectors.
   Part A: for any predicate [bad] on indices, if every gate's index table only connects
   indices of equal badness ([gate_ok]), a state with no amplitude on bad indices stays so.
   Part B: for bad = "wrong parity", [gate_ok] is proved for controlled phase, Ising-XX and
   two-mode squeezing and passive gates from the index theorems (cutoff d+1). *)
From Coq Require Import ZArith List Bool Lia ZifyBool.
From PV Require Import Comb.FockModel Comb.Binom Comb.FermiModel Comb.FermiProofs
  C17.FermiRepModel C17.FermiWalkProofs C17.FermiParityProofs C17.FermiBasisProofs.
Import ListNotations.
Open Scope Z_scope.

Section Sequence.
Variable A : Type.
Variables (zero one : A) (add mul : A -> A -> A) (opp : A -> A).
Hypothesis mul_0_r : forall x, mul x zero = zero.
Hypothesis add_0_0 : add zero zero = zero.
Variable bad : Z -> Prop.

Local Notation sget := (sget A zero).

Definition clean (psi : list A) : Prop := forall i, 0 <= i -> bad i -> sget psi i = zero.

Lemma clean_zupd st k v : clean st -> (0 <= k -> bad k -> v = zero) -> clean (zupd st k v).
Proof.
  intros C H i Hi Hb. destruct (sget_zupd A zero st k v i Hi) as [E|[E ->]].
  - rewrite E. apply C; assumption.
  - rewrite E. apply H; assumption.
Qed.

Lemma clean_fold {T} (F : list A -> T -> list A) (items : list T) :
  forall st, clean st -> (forall x st0, In x items -> clean st0 -> clean (F st0 x)) ->
  clean (fold_left F items st).
Proof.
  induction items as [|x items IH]; intros st C H; [exact C|].
  cbn [fold_left]. apply IH.
  - apply H; [left; reflexivity|exact C].
  - intros y st0 Hy. apply H. right. exact Hy.
Qed.

Lemma clean_zeros n : clean (repeat zero n).
Proof.
  intros i _ _. unfold FermiRepModel.sget. generalize (Z.to_nat i) as k.
  induction n as [|n IH]; intros k; destruct k; cbn [repeat nth]; auto.
Qed.

Lemma dot_zero (v : list A) : Forall (fun x => x = zero) v ->
  forall row, dot A zero add mul row v = zero.
Proof.
  unfold dot. induction 1 as [|x v Hx Hv IH]; intros row.
  - destruct row; reflexivity.
  - destruct row as [|r row]; [reflexivity|].
    cbn [combine fold_left fst snd]. rewrite Hx, mul_0_r, add_0_0. apply IH.
Qed.

(* ---------------- compatibility of a gate's index table with [bad] *)
Definition sq2_cond (modes occ : list Z) : bool :=
  (nth (Z.to_nat (nth 0 modes 0)) occ 0 =? 0) && (nth (Z.to_nat (nth 1 modes 0)) occ 0 =? 0).

Definition gate_ok (d cutoff : nat) (g : gate A) : Prop :=
  match g with
  | GPassive modes U =>
      Forall (fun ind : list (list Z) =>
                forall a i, (i < length ind)%nat -> (a < length (hd [] ind))%nat ->
                0 <= nth a (nth i ind []) 0 -> bad (nth a (nth i ind []) 0) ->
                forall indrow, In indrow ind -> 0 <= nth a indrow 0 /\ bad (nth a indrow 0))
             (interf_index_list modes d cutoff)
  | GSqueezing2 modes _ _ _ _ =>
      let size := f_cutoff_dim (Z.of_nat d) (Z.of_nat cutoff) in
      Forall (fun io : Z * list Z =>
                sq2_cond modes (snd io) = true ->
                f_index (scatter (snd io) modes [1; 1]) <? size = true ->
                0 <= fst io /\ 0 <= f_index (scatter (snd io) modes [1; 1]) /\
                (bad (fst io) <-> bad (f_index (scatter (snd io) modes [1; 1]))))
             (combine (map Z.of_nat (seq 0 (Z.to_nat size))) (sq_walk d size))
  | GCPhase _ _ => True
  | GIsingXX modes _ _ =>
      Forall (fun row : list Z =>
                forall p, In p (combine row (rev row)) -> 0 <= fst p -> bad (fst p) ->
                          0 <= snd p /\ bad (snd p))
             (ising_indices d (Z.of_nat cutoff) modes)
  end.

Lemma combine_map2 {X Y} (g : X -> Y) : forall l1 l2,
  combine (map g l1) (map g l2) = map (fun p => (g (fst p), g (snd p))) (combine l1 l2).
Proof.
  induction l1 as [|a l1 IH]; intros l2; [reflexivity|].
  destruct l2 as [|b l2]; [reflexivity|]. cbn [map combine fst snd]. f_equal. apply IH.
Qed.

Lemma Forall_combine_map {X Y V} (h : X * Y -> V) (Q : X -> V -> Prop) : forall l l',
  (forall p, In p (combine l l') -> Q (fst p) (h p)) ->
  Forall (fun kv => Q (fst kv) (snd kv)) (combine l (map h (combine l l'))).
Proof.
  induction l as [|a l IH]; intros l' H; [constructor|].
  destruct l' as [|b l']; [constructor|].
  cbn [combine map]. constructor.
  - apply (H (a, b)). left. reflexivity.
  - apply IH. intros p Hp. apply H. right. exact Hp.
Qed.

Lemma apply_ising_clean d cutoff modes c isn psi :
  gate_ok d cutoff (GIsingXX modes c isn) -> clean psi ->
  clean (apply_ising A zero add mul d cutoff modes c isn psi).
Proof.
  intros Hok C. unfold apply_ising. cbn [gate_ok] in Hok. rewrite Forall_forall in Hok.
  apply clean_fold; [exact C|]. intros row st Hrow Cst.
  rewrite <- map_rev, combine_map2, map_map.
  set (h := fun x : Z * Z => add (mul c (sget st (fst x))) (mul isn (sget st (snd x)))).
  change (fun x : Z * Z => add (mul c (fst (sget st (fst x), sget st (snd x))))
                               (mul isn (snd (sget st (fst x), sget st (snd x)))))
    with h.
  apply clean_fold; [exact Cst|]. intros kv st0 Hkv C0.
  apply clean_zupd; [exact C0|]. intros Hk Hb.
  pose proof (Forall_combine_map h
                (fun k v => 0 <= k -> bad k -> v = zero) row (rev row)) as F.
  rewrite Forall_forall in F.
  assert (Hh : forall p, In p (combine row (rev row)) -> 0 <= fst p -> bad (fst p) -> h p = zero).
  { intros p Hp Hp0 Hpb. destruct (Hok row Hrow p Hp Hp0 Hpb) as [Hs Hsb].
    unfold h. rewrite (Cst _ Hp0 Hpb), (Cst _ Hs Hsb), !mul_0_r. exact add_0_0. }
  exact (F Hh kv Hkv Hk Hb).
Qed.

Lemma apply_cphase_clean d cutoff modes e psi :
  clean psi -> clean (apply_cphase A zero mul d cutoff modes e psi).
Proof.
  intros C. unfold apply_cphase. apply clean_fold; [exact C|].
  intros k st _ Cst. apply clean_zupd; [exact Cst|]. intros Hk Hb.
  rewrite (C _ Hk Hb). apply mul_0_r.
Qed.

Lemma apply_squeezing2_clean d cutoff modes c s e ebar psi :
  gate_ok d cutoff (GSqueezing2 modes c s e ebar) -> clean psi ->
  clean (apply_squeezing2 A zero add mul opp d cutoff modes c s e ebar psi).
Proof.
  intros Hok C. unfold apply_squeezing2. cbn [gate_ok] in Hok. cbv zeta in Hok.
  rewrite Forall_forall in Hok. cbv zeta.
  apply clean_fold; [exact C|]. intros [i occ] st Hio Cst.
  specialize (Hok (i, occ) Hio). cbn [fst snd] in Hok. unfold sq2_cond in Hok.
  destruct ((nth (Z.to_nat (nth 0 modes 0)) occ 0 =? 0) &&
            (nth (Z.to_nat (nth 1 modes 0)) occ 0 =? 0))%bool; [|exact Cst].
  destruct (f_index (scatter occ modes [1; 1]) <? f_cutoff_dim (Z.of_nat d) (Z.of_nat cutoff)) eqn:Ej.
  - destruct (Hok eq_refl eq_refl) as [Hi [Hj Hij]].
    apply clean_zupd; [apply clean_zupd; [exact Cst|]|].
    + intros _ Hb. rewrite (Cst _ Hi Hb), (Cst _ Hj (proj1 Hij Hb)), !mul_0_r. exact add_0_0.
    + intros _ Hb. rewrite (Cst _ Hi (proj2 Hij Hb)), (Cst _ Hj Hb), !mul_0_r. exact add_0_0.
  - apply clean_zupd; [exact Cst|]. intros Hi Hb. rewrite (Cst _ Hi Hb). apply mul_0_r.
Qed.

Lemma apply_passive_clean rs idx psi :
  Forall (fun ind : list (list Z) =>
            forall a i, (i < length ind)%nat -> (a < length (hd [] ind))%nat ->
            0 <= nth a (nth i ind []) 0 -> bad (nth a (nth i ind []) 0) ->
            forall indrow, In indrow ind -> 0 <= nth a indrow 0 /\ bad (nth a indrow 0)) idx ->
  clean psi -> clean (apply_passive A zero add mul rs idx psi).
Proof.
  intros Hok C. unfold apply_passive. rewrite Forall_forall in Hok.
  apply clean_fold; [apply clean_zeros|]. intros [rep ind] new Hri Cnew.
  apply in_combine_r in Hri.
  apply clean_fold; [exact Cnew|]. intros [i a] new' Hia Cn'.
  apply in_prod_iff in Hia. destruct Hia as [Hi Ha]. apply in_seq in Hi. apply in_seq in Ha.
  apply clean_zupd; [exact Cn'|]. intros Hk Hb.
  apply dot_zero. apply Forall_forall. intros x Hx.
  apply in_map_iff in Hx. destruct Hx as [indrow [<- Hin]].
  destruct (Hok ind Hri a i ltac:(lia) ltac:(lia) Hk Hb indrow Hin) as [H0 Hbad].
  apply C; assumption.
Qed.

Lemma apply_gate_clean d cutoff g psi :
  gate_ok d cutoff g -> clean psi ->
  clean (apply_gate A zero one add mul opp d cutoff g psi).
Proof.
  intros Hok C. destruct g as [modes U|modes c s e ebar|modes e|modes c isn]; cbn [apply_gate].
  - apply apply_passive_clean; assumption.
  - apply apply_squeezing2_clean; assumption.
  - apply apply_cphase_clean; assumption.
  - apply apply_ising_clean; assumption.
Qed.

(* induction over the gate list *)
Theorem gates_keep_clean d cutoff : forall gs psi,
  Forall (gate_ok d cutoff) gs -> clean psi ->
  clean (fold_left (fun st g => apply_gate A zero one add mul opp d cutoff g st) gs psi).
Proof.
  induction gs as [|g gs IH]; intros psi Hok C; [exact C|].
  inversion Hok as [|g' gs' Hg Hgs]; subst. cbn [fold_left].
  apply IH; [exact Hgs|]. apply apply_gate_clean; assumption.
Qed.

Theorem program_keeps_clean d cutoff occ gs :
  ~ bad (f_index occ) -> Forall (gate_ok d cutoff) gs ->
  clean (run_program A zero one add mul opp d cutoff occ gs).
Proof.
  intros Hocc Hok. unfold run_program. apply gates_keep_clean; [exact Hok|].
  unfold prepare. apply clean_zupd; [apply clean_zeros|]. intros _ Hb. contradiction.
Qed.

End Sequence.

(* ================================================================ Part B: parity *)
Definition bits (v : list Z) : Prop := Forall (fun x => x = 0 \/ x = 1) v.

(* parity of the basis vector at index i (basis of d modes, all sectors) *)
Definition cls (d : nat) (i : Z) : Z := sumZ (nth (Z.to_nat i) (f_basis_spec d (S d)) []) mod 2.
Definition wrong (d : nat) (p : Z) (i : Z) : Prop := cls d i <> p.

Lemma to_fq_from_length v : forall i, (length (to_fq_from i v) <= length v)%nat.
Proof.
  induction v as [|x v IH]; intros i; cbn [to_fq_from length]; [lia|].
  specialize (IH (i + 1)). destruct (x =? 1); cbn [length]; lia.
Qed.

Lemma nth_f_index d v : length v = d -> bits v ->
  0 <= f_index v /\ nth (Z.to_nat (f_index v)) (f_basis_spec d (S d)) [] = v.
Proof.
  intros Hl Hb.
  assert (Hin : In v (f_basis_spec d (S d))).
  { apply f_basis_spec_complete. split; [exact Hl|]. split; [exact Hb|].
    unfold ones, to_fq. pose proof (to_fq_from_length v 0). lia. }
  apply In_nth with (d := []) in Hin. destruct Hin as [j [Hj E]].
  pose proof (f_equal (fun l => nth j l 0) (f_index_enum d (S d))) as En. cbv beta in En.
  rewrite (nth_map' f_index _ 0 []) in En by assumption.
  rewrite (nth_map' Z.of_nat _ 0 0%nat) in En by (rewrite seq_length; assumption).
  rewrite seq_nth in En by assumption. cbn [Nat.add] in En. rewrite E in En.
  rewrite En, Nat2Z.id. split; [lia|exact E].
Qed.

Lemma cls_f_index d v : length v = d -> bits v -> cls d (f_index v) = sumZ v mod 2.
Proof. intros Hl Hb. unfold cls. rewrite (proj2 (nth_f_index d v Hl Hb)). reflexivity. Qed.

Lemma upd_Forall {T} (P : T -> Prop) (l : list T) : forall i x,
  Forall P l -> P x -> Forall P (upd l i x).
Proof.
  induction l as [|a l IH]; intros i x Hl Hx; [constructor|].
  inversion Hl; subst. destruct i; cbn [upd]; constructor; auto.
Qed.

Lemma zupd_Forall {T} (P : T -> Prop) (l : list T) i x :
  Forall P l -> P x -> Forall P (zupd l i x).
Proof. intros. unfold zupd. destruct (i <? 0); [assumption|apply upd_Forall; assumption]. Qed.

Lemma scatter_Forall {T} (P : T -> Prop) : forall (ps : list Z) (v xs : list T),
  Forall P v -> Forall P xs -> Forall P (scatter v ps xs).
Proof.
  induction ps as [|q ps IH]; intros v xs Hv Hxs; [exact Hv|].
  destruct xs as [|x xs]; [exact Hv|]. inversion Hxs; subst. cbn [scatter].
  apply IH; [apply zupd_Forall; assumption|assumption].
Qed.

Lemma repeat0_bits d : bits (repeat 0 d).
Proof. induction d; cbn [repeat]; constructor; auto. Qed.

Lemma set2_bits v a b x y : bits v -> (x = 0 \/ x = 1) -> (y = 0 \/ y = 1) -> bits (set2 v a b x y).
Proof. intros. unfold set2, bits. apply upd_Forall; [apply upd_Forall|]; assumption. Qed.

Lemma set2_length v a b x y : length (set2 v a b x y) = length v.
Proof. unfold set2. now rewrite !upd_length. Qed.

(* the auxiliary walk at full cutoff is the full basis of the remaining modes *)
Lemma f_cutoff_dim_saturates d' : forall c, (S d' <= c)%nat ->
  f_cutoff_dim (Z.of_nat d') (Z.of_nat c) = f_cutoff_dim (Z.of_nat d') (Z.of_nat (S d')).
Proof.
  induction c as [|c IH]; intros Hc; [lia|].
  destruct (Nat.eq_dec c d') as [->|Hne]; [reflexivity|].
  rewrite f_cutoff_dim_S, IH by lia. rewrite comb_nat, binom_gt by lia. lia.
Qed.

Lemma sq_walk_full d' c : (S d' <= c)%nat ->
  sq_walk d' (f_cutoff_dim (Z.of_nat d') (Z.of_nat c)) = f_basis_spec d' (S d').
Proof.
  intros Hc. rewrite f_cutoff_dim_saturates by assumption.
  rewrite <- (f_basis_is_spec d' (S d')) by lia. reflexivity.
Qed.

Lemma basis_elem_valid d v : In v (f_basis_spec d (S d)) -> length v = d /\ bits v.
Proof. intros H. apply f_basis_spec_complete in H. destruct H as [H1 [H2 _]]. auto. Qed.

Lemma base_vector_bits d a b aux : bits aux -> bits (base_vector d a b aux).
Proof. intros H. unfold base_vector. apply scatter_Forall; [apply repeat0_bits|exact H]. Qed.

Lemma row_vector_valid d a b aux j : bits aux -> (j < 4)%nat ->
  length (row_vector d a b aux j) = d /\ bits (row_vector d a b aux j).
Proof.
  intros Hb Hj. rewrite row_vector_set2 by assumption. split.
  - rewrite set2_length. apply base_vector_length.
  - apply set2_bits; [apply base_vector_bits; exact Hb| |];
      destruct j as [|[|[|[|j]]]]; try lia; cbn; auto.
Qed.

(* ---------------- passive gates: the index list of sector n connects vectors that differ
   only on the gate modes, where both carry n particles *)
Lemma sumZ_bits_ones v : bits v -> sumZ v = Z.of_nat (ones v).
Proof.
  induction 1 as [|x v Hx Hv IH]; [reflexivity|].
  unfold sumZ in *. cbn [fold_right]. rewrite IH. destruct Hx as [->| ->].
  - rewrite ones_cons0. lia.
  - rewrite ones_cons1. lia.
Qed.

Definition sumAt (v : list Z) (ps : list Z) : Z :=
  fold_right (fun q s => nth (Z.to_nat q) v 0 + s) 0 ps.

Lemma sumAt_upd v ps p x : ~ In p ps -> 0 <= p -> Forall (fun q => 0 <= q) ps ->
  sumAt (upd v (Z.to_nat p) x) ps = sumAt v ps.
Proof.
  intros Hn Hp Hps. induction Hps as [|q ps Hq Hps IH]; [reflexivity|].
  cbn [sumAt fold_right]. fold (sumAt (upd v (Z.to_nat p) x) ps). fold (sumAt v ps).
  rewrite IH by (intros H; apply Hn; right; exact H).
  rewrite nth_upd.
  assert (E : Nat.eqb (Z.to_nat q) (Z.to_nat p) = false).
  { apply Nat.eqb_neq. intros H. apply Hn. left. lia. }
  rewrite E. reflexivity.
Qed.

Lemma scatter_sum : forall ps v xs,
  NoDup ps -> Forall (fun q => 0 <= q < Z.of_nat (length v)) ps -> length xs = length ps ->
  sumZ (scatter v ps xs) = sumZ v - sumAt v ps + sumZ xs.
Proof.
  induction ps as [|p ps IH]; intros v xs Hnd Hb Hl.
  - destruct xs; [|discriminate]. cbn. unfold sumZ. cbn. lia.
  - destruct xs as [|x xs]; [discriminate|].
    inversion Hnd as [|p' ps' Hnin Hnd']; subst. inversion Hb as [|p' ps' Hp Hb']; subst.
    cbn [scatter]. unfold zupd. assert (E : (p <? 0) = false) by lia. rewrite E.
    rewrite IH.
    + rewrite sumZ_upd by lia.
      rewrite sumAt_upd; [|assumption|lia|eapply Forall_impl; [|exact Hb']; intros; cbv beta in *; lia].
      cbn [sumAt fold_right]. fold (sumAt v ps). unfold sumZ. cbn [fold_right]. lia.
    + exact Hnd'.
    + rewrite upd_length. exact Hb'.
    + cbn [length] in Hl. lia.
Qed.

Lemma in_firstn {T} (x : T) : forall n l, In x (firstn n l) -> In x l.
Proof.
  induction n as [|n IH]; intros l H; [destruct H|].
  destruct l as [|a l]; [destruct H|]. cbn [firstn] in H. destruct H as [->|H]; [left; reflexivity|].
  right. apply IH. exact H.
Qed.

Lemma in_skipn {T} (x : T) : forall n l, In x (skipn n l) -> In x l.
Proof.
  induction n as [|n IH]; intros l H; [exact H|].
  destruct l as [|a l]; [destruct H|]. right. apply IH. exact H.
Qed.

Lemma basis_spec_prefix k : forall c2 c1, (c1 <= c2)%nat ->
  exists rest, f_basis_spec k c2 = f_basis_spec k c1 ++ rest.
Proof.
  induction c2 as [|c2 IH]; intros c1 H.
  - assert (c1 = 0%nat) by lia. subst. exists []. reflexivity.
  - destruct (Nat.eq_dec c1 (S c2)) as [->|Hne]; [exists []; now rewrite app_nil_r|].
    destruct (IH c1 ltac:(lia)) as [rest E]. rewrite f_basis_spec_S, E, <- app_assoc.
    eexists. reflexivity.
Qed.

Lemma nsub_sector k n col :
  In col (firstn (Z.to_nat (f_cutoff_dim (Z.of_nat k) (Z.of_nat (S n)))
                  - Z.to_nat (f_cutoff_dim (Z.of_nat k) (Z.of_nat n)))
                 (skipn (Z.to_nat (f_cutoff_dim (Z.of_nat k) (Z.of_nat n)))
                        (f_basis_spec k (S k)))) ->
  length col = k /\ bits col /\ sumZ col = Z.of_nat n.
Proof.
  intros H. destruct (le_lt_dec n k) as [Hle|Hgt].
  - destruct (basis_spec_prefix k (S k) (S n) ltac:(lia)) as [rest E].
    rewrite E, f_basis_spec_S, <- app_assoc in H.
    rewrite !f_cutoff_dim_length, !Nat2Z.id, f_basis_spec_S, app_length in H.
    replace (length (f_basis_spec k n) + length (f_sector k n) - length (f_basis_spec k n))%nat
      with (length (f_sector k n)) in H by lia.
    rewrite skipn_app, skipn_all, Nat.sub_diag in H. cbn [skipn app] in H.
    rewrite firstn_app, firstn_all, Nat.sub_diag in H. cbn [firstn] in H. rewrite app_nil_r in H.
    apply f_sector_valid in H. destruct H as [L [B O]].
    split; [exact L|]. split; [exact B|]. rewrite sumZ_bits_ones by exact B. now rewrite O.
  - rewrite (f_cutoff_dim_saturates k (S n)) in H by lia.
    rewrite (f_cutoff_dim_saturates k n) in H by lia.
    rewrite Nat.sub_diag in H. destruct H.
Qed.

Lemma full_occ_valid d modes col aux : bits col -> bits aux ->
  length (full_occ d modes col aux) = d /\ bits (full_occ d modes col aux).
Proof.
  intros Hc Ha. unfold full_occ. split.
  - rewrite !scatter_length. apply repeat_length.
  - apply scatter_Forall; [apply scatter_Forall; [apply repeat0_bits|exact Ha]|exact Hc].
Qed.

Section ParityGates.
Variable A : Type.
Variables (zero one : A) (add mul : A -> A -> A) (opp : A -> A).

Lemma ising_gate_ok d p a b c isn :
  a <> b -> (a < d)%nat -> (b < d)%nat ->
  gate_ok A (wrong d p) d (S d) (GIsingXX [Z.of_nat a; Z.of_nat b] c isn).
Proof.
  intros Hab Ha Hb. cbn [gate_ok]. rewrite ising_indices_row.
  replace (Z.of_nat d - 2) with (Z.of_nat (d - 2)) by lia.
  rewrite sq_walk_full by lia. apply Forall_forall. intros row Hrow.
  apply in_map_iff in Hrow. destruct Hrow as [aux [<- Haux]].
  apply basis_elem_valid in Haux. destruct Haux as [_ Hbits].
  assert (V : forall j, (j < 4)%nat ->
            0 <= f_index (row_vector d a b aux j) /\
            cls d (f_index (row_vector d a b aux j)) = sumZ (row_vector d a b aux j) mod 2).
  { intros j Hj. destruct (row_vector_valid d a b aux j Hbits Hj) as [L B].
    split; [apply (nth_f_index d _ L B)|apply cls_f_index; assumption]. }
  assert (E : forall j, (j < 4)%nat ->
            cls d (f_index (row_vector d a b aux j)) = cls d (f_index (row_vector d a b aux (3 - j)))).
  { intros j Hj. rewrite (proj2 (V j Hj)), (proj2 (V (3 - j)%nat ltac:(lia))).
    apply pairs_conserve_parity; assumption. }
  pose proof (E 0%nat ltac:(lia)) as E0. pose proof (E 1%nat ltac:(lia)) as E1.
  pose proof (E 2%nat ltac:(lia)) as E2. pose proof (E 3%nat ltac:(lia)) as E3.
  cbn [Nat.sub] in E0, E1, E2, E3.
  cbn [seq map rev app combine].
  intros q Hq H0 Hw. unfold wrong in *.
  destruct Hq as [<-|[<-|[<-|[<-|[]]]]]; cbn [fst snd] in *.
  - split; [apply (V 3%nat); lia|]. rewrite <- E0. exact Hw.
  - split; [apply (V 2%nat); lia|]. rewrite <- E1. exact Hw.
  - split; [apply (V 1%nat); lia|]. rewrite <- E2. exact Hw.
  - split; [apply (V 0%nat); lia|]. rewrite <- E3. exact Hw.
Qed.

Lemma in_combine_seq {T} (B : list T) dflt : forall i x,
  In (i, x) (combine (map Z.of_nat (seq 0 (length B))) B) ->
  exists k, (k < length B)%nat /\ i = Z.of_nat k /\ x = nth k B dflt.
Proof.
  intros i x H.
  assert (G : forall (l : list T) s i x, In (i, x) (combine (map Z.of_nat (seq s (length l))) l) ->
              exists k, (k < length l)%nat /\ i = Z.of_nat (s + k) /\ x = nth k l dflt).
  { induction l as [|a l IH]; intros s i0 x0 Hin; [destruct Hin|].
    cbn [length seq map combine] in Hin. destruct Hin as [Heq|Hin].
    - inversion Heq; subst. exists 0%nat. cbn [length nth]. rewrite Nat.add_0_r.
      split; [lia|]. split; reflexivity.
    - destruct (IH (S s) i0 x0 Hin) as [k [Hk [Ei Ex]]]. exists (S k). cbn [length nth].
      split; [lia|]. split; [rewrite Ei; f_equal; lia|exact Ex]. }
  destruct (G B 0%nat i x H) as [k [Hk [Ei Ex]]]. exists k. auto.
Qed.

Lemma squeezing2_gate_ok d p a b c s e ebar :
  a <> b -> (a < d)%nat -> (b < d)%nat ->
  gate_ok A (wrong d p) d (S d) (GSqueezing2 [Z.of_nat a; Z.of_nat b] c s e ebar).
Proof.
  intros Hab Ha Hb. cbn [gate_ok]. cbv zeta.
  rewrite sq_walk_full by lia.
  rewrite f_cutoff_dim_length, Nat2Z.id.
  apply Forall_forall. intros [i occ] Hio. cbn [fst snd].
  destruct (in_combine_seq _ [] i occ Hio) as [k [Hk [-> ->]]].
  set (occ := nth k (f_basis_spec d (S d)) []).
  assert (Hv : In occ (f_basis_spec d (S d))) by (apply nth_In; exact Hk).
  apply basis_elem_valid in Hv. destruct Hv as [L B].
  intros Hcond _. unfold sq2_cond in Hcond. cbn [nth] in Hcond. rewrite !Nat2Z.id in Hcond.
  rewrite scatter_set2.
  assert (L2 : length (set2 occ a b 1 1) = d) by (rewrite set2_length; exact L).
  assert (B2 : bits (set2 occ a b 1 1)) by (apply set2_bits; auto).
  split; [lia|]. split; [apply (nth_f_index d _ L2 B2)|].
  unfold wrong. rewrite (cls_f_index d _ L2 B2). unfold cls. rewrite Nat2Z.id. fold occ.
  rewrite set2_sum by (try assumption; lia).
  assert (E0 : nth a occ 0 = 0 /\ nth b occ 0 = 0) by lia. destruct E0 as [Ea Eb].
  rewrite Ea, Eb. replace (sumZ occ - 0 - 0 + 1 + 1) with (sumZ occ + 1 * 2) by lia.
  rewrite Z_mod_plus_full. reflexivity.
Qed.

Lemma passive_gate_ok d p modes U :
  NoDup modes -> Forall (fun q => 0 <= q < Z.of_nat d) modes -> (length modes <= d)%nat ->
  gate_ok A (wrong d p) d (S d) (GPassive modes U).
Proof.
  intros Hnd Hrange Hk. cbn [gate_ok]. unfold interf_index_list.
  set (k := length modes) in *.
  change (f_basis k (Z.of_nat (S d)))
    with (sq_walk k (f_cutoff_dim (Z.of_nat k) (Z.of_nat (S d)))).
  change (f_basis (d - k) (Z.of_nat (S d)))
    with (sq_walk (d - k) (f_cutoff_dim (Z.of_nat (d - k)) (Z.of_nat (S d)))).
  rewrite !sq_walk_full by lia.
  apply Forall_forall. intros ind Hind. apply in_map_iff in Hind. destruct Hind as [n [<- Hn]].
  set (AUX := firstn (Z.to_nat (f_cutoff_dim (Z.of_nat (d - k)) (Z.of_nat (S d - n))))
                     (f_basis_spec (d - k) (S (d - k)))).
  set (nsub := firstn (Z.to_nat (f_cutoff_dim (Z.of_nat k) (Z.of_nat (S n)))
                       - Z.to_nat (f_cutoff_dim (Z.of_nat k) (Z.of_nat n)))
                      (skipn (Z.to_nat (f_cutoff_dim (Z.of_nat k) (Z.of_nat n)))
                             (f_basis_spec k (S k)))).
  set (F := fun col auxocc => f_index (full_occ d modes col auxocc)).
  change (map (fun col => map (fun auxocc => f_index (full_occ d modes col auxocc)) AUX) nsub)
    with (map (fun col => map (F col) AUX) nsub).
  intros a i Hi Ha H0 Hw indrow Hrow.
  rewrite map_length in Hi.
  assert (HaA : (a < length AUX)%nat).
  { destruct nsub as [|c0 rest]; [cbn [length] in Hi; lia|]. cbn [map hd] in Ha.
    rewrite map_length in Ha. exact Ha. }
  rewrite (nth_map' (fun col => map (F col) AUX) nsub [] []) in H0, Hw by exact Hi.
  rewrite (nth_map' (F (nth i nsub [])) AUX 0 []) in H0, Hw by exact HaA.
  apply in_map_iff in Hrow. destruct Hrow as [col [<- Hcol]].
  rewrite (nth_map' (F col) AUX 0 []) by exact HaA.
  set (aux := nth a AUX []) in *.
  assert (Baux : bits aux).
  { assert (Hin : In aux AUX) by (apply nth_In; exact HaA).
    apply in_firstn in Hin. apply basis_elem_valid in Hin. apply Hin. }
  destruct (nsub_sector k n (nth i nsub []) (nth_In _ _ Hi)) as [L1 [B1 S1]].
  destruct (nsub_sector k n col Hcol) as [L2 [B2 S2]].
  destruct (full_occ_valid d modes _ aux B1 Baux) as [Lv1 Bv1].
  destruct (full_occ_valid d modes _ aux B2 Baux) as [Lv2 Bv2].
  unfold F in *. split; [apply (nth_f_index d _ Lv2 Bv2)|].
  unfold wrong in *. rewrite (cls_f_index d _ Lv1 Bv1) in Hw. rewrite (cls_f_index d _ Lv2 Bv2).
  assert (Hlen : length (scatter (repeat 0 d) (aux_modes d modes) aux) = d)
    by (rewrite scatter_length; apply repeat_length).
  unfold full_occ in *.
  rewrite scatter_sum in Hw; [|exact Hnd|rewrite Hlen; exact Hrange|exact L1].
  rewrite scatter_sum; [|exact Hnd|rewrite Hlen; exact Hrange|exact L2].
  rewrite S1 in Hw. rewrite S2. exact Hw.
Qed.

(* well-formed gates: two-mode gates act on two different modes below d; passive gates on
   distinct modes below d *)
Definition gate_wf (d : nat) (g : gate A) : Prop :=
  match g with
  | GPassive modes U =>
      NoDup modes /\ Forall (fun q => 0 <= q < Z.of_nat d) modes /\ (length modes <= d)%nat
  | GSqueezing2 modes _ _ _ _ | GIsingXX modes _ _ =>
      exists a b, modes = [Z.of_nat a; Z.of_nat b] /\ a <> b /\ (a < d)%nat /\ (b < d)%nat
  | GCPhase _ _ => True
  end.

Lemma gate_wf_ok d p g : gate_wf d g -> gate_ok A (wrong d p) d (S d) g.
Proof.
  destruct g as [modes U|modes c s e ebar|modes e|modes c isn]; cbn [gate_wf].
  - intros [H1 [H2 H3]]. apply passive_gate_ok; assumption.
  - intros [a [b [-> [Hab [Ha Hb]]]]]. apply squeezing2_gate_ok; assumption.
  - intros _. exact I.
  - intros [a [b [-> [Hab [Ha Hb]]]]]. apply ising_gate_ok; assumption.
Qed.

Hypothesis mul_0_r : forall x, mul x zero = zero.
Hypothesis add_0_0 : add zero zero = zero.

(* for every occupation input and every sequence of well-formed gates (cutoff d+1), no
   amplitude ever sits on a basis vector of the other particle-number parity *)
Theorem parity_conserved d occ gs i :
  length occ = d -> bits occ -> Forall (gate_wf d) gs ->
  0 <= i -> cls d i <> sumZ occ mod 2 ->
  sget A zero (run_program A zero one add mul opp d (S d) occ gs) i = zero.
Proof.
  intros L B Hgs Hi Hw.
  apply (program_keeps_clean A zero one add mul opp mul_0_r add_0_0 (wrong d (sumZ occ mod 2)));
    try assumption.
  - unfold wrong. rewrite (cls_f_index d occ L B). intros H. apply H. reflexivity.
  - eapply Forall_impl; [|exact Hgs]. intros g. apply gate_wf_ok.
Qed.

End ParityGates.
