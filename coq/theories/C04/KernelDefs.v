(* C04 -- the defining sums of the other matrix functions (definitions only):
   hafnian and loop hafnian with repetitions (perfect matchings / matchings with loops,
   recursive on the first vertex), Pfaffian (expansion along the first row), determinant
   (first-row expansion) and the torontonian / loop torontonian data per mode subset
   (sign, det(I - A_Z), bordered determinant giving y^T (I-A_Z)^{-1} y); the square root and
   the exponential stay outside Coq.
   These are the references for piquasso/_math/hafnian/{plain_hafnian,loop_hafnian}.py,
   src/pfaffian.cpp:pfaffian_cpp, src/torontonian.cpp:torontonian_cpp and
   src/loop_torontonian.cpp:loop_torontonian_cpp. *)
From Coq Require Import ZArith QArith List Bool.
From PV Require Import C04.PermModel.
Import ListNotations.
Local Close Scope Q_scope.
Local Close Scope Z_scope.
Local Open Scope nat_scope.

Section Defs.
Variable A : Type.
Variables (rO rI : A) (radd rmul : A -> A -> A) (ropp : A -> A).

Notation sumA := (sumA A rO radd).

Definition entry (M : list (list A)) (i j : nat) : A := nth j (nth i M []) rO.

Definition alt (k : nat) (x : A) : A := if Nat.odd k then ropp x else x.

(* sum over the matchings of the vertices in [avail] (with repetitions: a vertex may occur
   several times); [loops = Some d] also allows a vertex to be matched with itself, weight d_i *)
Fixpoint haf_aux (fuel : nat) (M : list (list A)) (loops : option (list A)) (avail : list nat) : A :=
  match fuel with
  | O => match avail with [] => rI | _ => rO end
  | S f =>
      match avail with
      | [] => rI
      | i :: rest =>
          radd (match loops with
                | Some d => rmul (nth i d rO) (haf_aux f M loops rest)
                | None => rO
                end)
               (sumA (map (fun k => rmul (entry M i (nth k rest 0))
                                         (haf_aux f M loops (remove_nth k rest)))
                          (seq 0 (length rest))))
      end
  end.

Definition haf_def (M : list (list A)) (occ : list nat) : A :=
  let av := expand (seq 0 (length occ)) occ in haf_aux (length av) M None av.

Definition lhaf_def (M : list (list A)) (diag : list A) (occ : list nat) : A :=
  let av := expand (seq 0 (length occ)) occ in haf_aux (length av) M (Some diag) av.

(* Pfaffian: pf(i :: rest) = sum_k (-1)^k M[i][rest_k] pf(rest without k) *)
Fixpoint pf_aux (fuel : nat) (M : list (list A)) (avail : list nat) : A :=
  match fuel with
  | O => match avail with [] => rI | _ => rO end
  | S f =>
      match avail with
      | [] => rI
      | i :: rest =>
          sumA (map (fun k => alt k (rmul (entry M i (nth k rest 0)) (pf_aux f M (remove_nth k rest))))
                    (seq 0 (length rest)))
      end
  end.

Definition pf_def (M : list (list A)) : A := pf_aux (length M) M (seq 0 (length M)).

(* determinant of the submatrix rows x cols, expansion along the first listed row *)
Fixpoint det_aux (M : list (list A)) (rows cols : list nat) : A :=
  match rows with
  | [] => rI
  | i :: rs =>
      sumA (map (fun k => alt k (rmul (entry M i (nth k cols 0)) (det_aux M rs (remove_nth k cols))))
                (seq 0 (length cols)))
  end.

Fixpoint subsets (l : list nat) : list (list nat) :=
  match l with
  | [] => [[]]
  | x :: t => let s := subsets t in s ++ map (cons x) s
  end.

(* B = I - M *)
Definition id_minus (M : list (list A)) : list (list A) :=
  map (fun i => map (fun j => radd (if i =? j then rI else rO) (ropp (entry M i j))) (seq 0 (length M)))
      (seq 0 (length M)).

(* bordered matrix [[B, y], [y^T, 0]] *)
Definition border (B : list (list A)) (y : list A) : list (list A) :=
  map (fun i => nth i B [] ++ [nth i y rO]) (seq 0 (length B)) ++ [y ++ [rO]].

(* per subset Z of the modes (xpxp ordering: mode m owns indices 2m, 2m+1):
   (N - |Z|, det (I-A)_Z, det of the bordered matrix = - det * y_Z^T (I-A)_Z^{-1} y_Z) *)
Definition tor_data (M : list (list A)) (y : list A) : list (nat * A * A) :=
  let n := length M / 2 in
  let B := id_minus M in
  let Bb := border B y in
  map (fun Z =>
         let idx := flat_map (fun m => [2 * m; 2 * m + 1]) Z in
         (n - length Z, det_aux B idx idx, det_aux Bb (idx ++ [length M]) (idx ++ [length M])))
      (subsets (seq 0 n)).
End Defs.

(* instances: Gaussian integers for the hafnians, Z for the Pfaffian, Q for the torontonians *)
Definition haf_zi := haf_def Zi zi0 zi1 ziadd zimul.
Definition lhaf_zi := lhaf_def Zi zi0 zi1 ziadd zimul.
Definition pf_z := pf_def Z 0%Z 1%Z Z.add Z.mul Z.opp.
Definition det_z := det_aux Z 0%Z 1%Z Z.add Z.mul Z.opp.
Definition tor_q := tor_data Q 0%Q 1%Q Qplus Qmult Qopp.

Definition enc_q (q : Q) : list Z := let r := Qred q in [Qnum r; Zpos (Qden r)].
Definition enc_tor (l : list (nat * Q * Q)) : list Z :=
  flat_map (fun '(k, d, b) => Z.of_nat k :: enc_q d ++ enc_q b) l.
