(* Executable model of the bosonic Fock-basis combinatorics of piquasso.
   Definitions only (no proofs) so that the model still runs when a proof breaks.

   piquasso/_math/combinatorics.py : comb, arr_comb, partitions
   piquasso/_math/indices.py       : get_index_in_fock_space(_array),
                                     get_index_in_fock_subspace(_array)
   piquasso/_math/fock.py          : cutoff_fock_space_dim, symmetric_subspace_cardinality,
                                     nb_get_fock_space_basis *)
From Coq Require Import ZArith List Bool Lia.
Import ListNotations.
Open Scope Z_scope.

(* ---- comb (combinatorics.py:comb) : the loop  prod *= n - i ; prod //= i + 1 ---- *)
Definition comb_step (n : Z) (prod : Z) (i : nat) : Z :=
  (prod * (n - Z.of_nat i)) / (Z.of_nat i + 1).

Definition comb_loop (n : Z) (k : nat) : Z :=
  fold_left (comb_step n) (seq 0 k) 1.

Definition comb (n k : Z) : Z :=
  if (n <? 0) || (k <? 0) || (n <? k) then 0
  else comb_loop n (Z.to_nat (Z.min k (n - k))).

(* ---- arr_comb (combinatorics.py:arr_comb), one array element.
   invalid := (n<0)|(n<k); n := where(invalid, 0, n); symmetric_k := minimum(k, n-k);
   for i in range(k): prod = where(i < symmetric_k, prod*(n-i)//(i+1), prod)
   return where(invalid, 0, prod)
   prod is np.int64: a product outside the int64 range *that is used* is reported as
   None (numba wraps silently; the model does not guess the wrapped value). ---- *)
Definition int64_ok (z : Z) : bool := (-(2^63) <=? z) && (z <? 2^63).
Definition int32_ok (z : Z) : bool := (-(2^31) <=? z) && (z <? 2^31).

Definition arr_comb_step (n m : Z) (acc : option Z) (i : nat) : option Z :=
  match acc with
  | None => None
  | Some prod =>
      if Z.of_nat i <? m then
        let p := prod * (n - Z.of_nat i) in
        if int64_ok p then Some (p / (Z.of_nat i + 1)) else None
      else Some prod
  end.

Definition arr_comb (n k : Z) : option Z :=
  let invalid := (n <? 0) || (n <? k) in
  let n' := if invalid then 0 else n in
  let m := Z.min k (n' - k) in
  match fold_left (arr_comb_step n' m) (seq 0 (Z.to_nat k)) (Some 1) with
  | None => None
  | Some prod => Some (if invalid then 0 else prod)
  end.

(* ---- get_index_in_fock_space / get_index_in_fock_subspace ----
   for i in range(len(element)): sum_ += element[-1-i]; acc += comb(sum_+i, i+1) *)
Definition index_step (st : Z * Z * Z) (x : Z) : Z * Z * Z :=
  let '(sum_, acc, i) := st in
  let sum' := sum_ + x in
  (sum', acc + comb (sum' + i) (i + 1), i + 1).

Definition fock_index (v : list Z) : Z :=
  let '(_, acc, _) := fold_left index_step (rev v) (0, 0, 0) in acc.

(* range(len(element) - 1): the first coordinate is not visited *)
Definition fock_subspace_index (v : list Z) : Z := fock_index (tl v).

(* vectorised versions with int32 accumulators and int64 arr_comb *)
Definition index_step_arr (st : option (Z * Z * Z)) (x : Z) : option (Z * Z * Z) :=
  match st with
  | None => None
  | Some (sum_, acc, i) =>
      let sum' := sum_ + x in
      if negb (int32_ok sum') then None else
      match arr_comb (sum' + i) (i + 1) with
      | None => None
      | Some c => let acc' := acc + c in
                  if int32_ok acc' then Some (sum', acc', i + 1) else None
      end
  end.

Definition fock_index_arr (v : list Z) : option Z :=
  match fold_left index_step_arr (rev v) (Some (0, 0, 0)) with
  | Some (_, acc, _) => Some acc
  | None => None
  end.
Definition fock_subspace_index_arr (v : list Z) : option Z := fock_index_arr (tl v).

(* ---- dimensions ---- *)
Definition cutoff_dim (cutoff d : Z) : Z := comb (d + cutoff - 1) d.
Definition sym_card (d n : Z) : Z := comb (d + n - 1) n.

(* ---- basis: recursive specification of the enumeration order.
   sector d n : vectors of length d with total n, anti-lexicographic;
   basis d c  : sectors n = 0 .. c-1 concatenated (nb_get_fock_space_basis). *)
Definition sumZ (l : list Z) : Z := fold_right Z.add 0 l.

Fixpoint sector (d : nat) (n : nat) : list (list Z) :=
  match d with
  | O => match n with O => [[]] | S _ => [] end
  | S d' =>
      concat (map (fun m => map (fun t => (Z.of_nat n - Z.of_nat m) :: t) (sector d' m))
                  (seq 0 (S n)))
  end.

Definition basis (d c : nat) : list (list Z) := concat (map (sector d) (seq 0 c)).

(* ---- partitions (combinatorics.py:partitions): the iterative separator walk.
   separators start at [0..boxes-2]; rows written from the last index downwards;
   successor: rightmost separator not at its maximum is incremented, the ones
   after it reset to consecutive positions. Fuel = number of rows. *)
Fixpoint row_go (positions prev : Z) (l : list Z) : list Z :=
  match l with
  | [] => [positions - prev - 1]
  | s :: l' => (s - prev - 1) :: row_go positions s l'
  end.
Definition row_of_separators (positions : Z) (seps : list Z) : list Z :=
  row_go positions (-1) seps.

(* next separators; None when every separator is at its maximum *)
Fixpoint next_seps (positions : Z) (boxes : Z) (i : Z) (seps : list Z) : option (list Z) :=
  (* seps = separators[i..]; returns updated suffix *)
  match seps with
  | [] => None
  | s :: rest =>
      match next_seps positions boxes (i + 1) rest with
      | Some rest' => Some (s :: rest')
      | None =>
          if s =? positions - (boxes - 1 - i) then None
          else Some (map (fun j => s + 1 + Z.of_nat j) (seq 0 (S (length rest))))
      end
  end.

Fixpoint partitions_rows (fuel : nat) (positions boxes : Z) (seps : list Z)
  (acc : list (list Z)) : list (list Z) :=
  match fuel with
  | O => acc
  | S f =>
      let acc' := row_of_separators positions seps :: acc in
      match next_seps positions boxes 0 seps with
      | Some seps' => partitions_rows f positions boxes seps' acc'
      | None => acc'
      end
  end.

Definition partitions (boxes particles : nat) : list (list Z) :=
  let positions := Z.of_nat particles + Z.of_nat boxes - 1 in
  match boxes with
  | O => [[]]    (* np.empty((1,0)) *)
  | S b =>
      let size := Z.to_nat (comb positions (Z.of_nat b)) in
      partitions_rows size positions (Z.of_nat boxes)
        (map Z.of_nat (seq 0 b)) []
  end.

Definition basis_iter (d c : nat) : list (list Z) :=
  concat (map (partitions d) (seq 0 c)).
