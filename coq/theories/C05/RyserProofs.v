(* C05 - the subset-sum precomputation of the Ryser coefficient extraction
   (passive/probabilities.py:_precompute_subset_row_sums, same loop in
   _calculate_tensor_permanent): the table filled by the lowest-set-bit recurrence holds, for
   EVERY subset, the direct sum of the columns whose bit is set. *)
From Coq Require Import ZArith List Arith Lia PArith NArith.
From PV Require Import C05.PassiveModel.
Import ListNotations.

Section SubsetSumsProofs.
  Variable A : Type.
  Variable a0 : A.
  Variable aadd : A -> A -> A.
  Variable M : list (list A).
  Notation n := (length M).
  Notation vadd := (vadd A aadd).
  Notation column := (column A a0).
  Notation bits_sum := (bits_sum A a0 aadd M (length M)).

  (* value of the table at an index given as N *)
  Definition entry (k : N) (c : nat) : list A :=
    match k with N0 => repeat a0 n | Npos q => bits_sum q c end.

  Lemma bits_sum_recurrence : forall p c,
    bits_sum p c = vadd (entry (clear_lsb p) c) (column M (c + ctz p)).
  Proof.
    induction p as [q IH | q IH | ]; intros c; simpl.
    - rewrite Nat.add_0_r. reflexivity.
    - rewrite IH. rewrite Nat.add_succ_comm.
      destruct (clear_lsb q); reflexivity.
    - rewrite Nat.add_0_r. reflexivity.
  Qed.

  Lemma clear_lsb_lt : forall p, (N.to_nat (clear_lsb p) < Pos.to_nat p)%nat.
  Proof.
    induction p as [q IH | q IH | ]; simpl.
    - rewrite !Pos2Nat.inj_xI, Pos2Nat.inj_xO. lia.
    - rewrite Pos2Nat.inj_xO.
      destruct (clear_lsb q) as [| r]; simpl in *.
      + pose proof (Pos2Nat.is_pos q). lia.
      + rewrite Pos2Nat.inj_xO. lia.
    - lia.
  Qed.

  Lemma positives_from_snoc : forall k p,
    positives_from p (S k) = positives_from p k ++ [Pos.of_nat (Pos.to_nat p + k)].
  Proof.
    induction k as [| k IH]; intros p.
    - simpl. rewrite Nat.add_0_r, Pos2Nat.id. reflexivity.
    - change (positives_from p (S (S k))) with (p :: positives_from (Pos.succ p) (S k)).
      rewrite IH.
      replace (Pos.to_nat (Pos.succ p) + k)%nat with (Pos.to_nat p + S k)%nat
        by (rewrite Pos2Nat.inj_succ; lia).
      reflexivity.
  Qed.

  Definition table (k : nat) : list (list A) :=
    fold_left (subset_step A a0 aadd M) (positives_from 1%positive k) [repeat a0 n].

  Lemma table_invariant : forall k,
    length (table k) = S k /\
    forall i : N, (N.to_nat i <= k)%nat -> nth (N.to_nat i) (table k) [] = entry i 0.
  Proof.
    induction k as [| k [Hlen IH]].
    - split; [reflexivity |]. intros i Hi. destruct i as [| q].
      + reflexivity.
      + pose proof (Pos2Nat.is_pos q). simpl in Hi. lia.
    - unfold table. rewrite positives_from_snoc, fold_left_app. fold (table k). simpl.
      change (Pos.to_nat 1) with 1%nat. set (s := Pos.of_nat (1 + k)).
      assert (Hs : Pos.to_nat s = S k) by (unfold s; rewrite Nat2Pos.id; lia).
      unfold subset_step. split.
      + rewrite app_length, Hlen. simpl. lia.
      + intros i Hi.
        destruct (Nat.eq_dec (N.to_nat i) (S k)) as [E | NE].
        * rewrite E, <- Hlen, nth_middle.
          assert (i = Npos s) as ->.
          { apply N2Nat.inj. rewrite E. simpl. symmetry. exact Hs. }
          simpl. rewrite bits_sum_recurrence. simpl. f_equal.
          pose proof (clear_lsb_lt s) as Hlt. rewrite Hs in Hlt.
          apply IH. lia.
        * rewrite app_nth1 by lia. apply IH. lia.
  Qed.

  (* _precompute_subset_row_sums: for every subset 0 <= k < 2^n the table entry is the
     direct sum of the columns in k *)
  Theorem subset_row_sums_spec : forall k : N,
    (N.to_nat k < 2 ^ n)%nat ->
    nth (N.to_nat k) (subset_row_sums A a0 aadd M) [] = entry k 0.
  Proof.
    intros k Hk. unfold subset_row_sums. fold (table (2 ^ n - 1)).
    apply table_invariant. lia.
  Qed.

  Theorem subset_row_sums_length :
    length (subset_row_sums A a0 aadd M) = (2 ^ n)%nat.
  Proof.
    unfold subset_row_sums. fold (table (2 ^ n - 1)).
    destruct (table_invariant (2 ^ n - 1)) as [H _]. rewrite H.
    pose proof (Nat.pow_nonzero 2 n). lia.
  Qed.
End SubsetSumsProofs.

(* the direct sum really is "the columns whose bit is set": over Z, entry r of the sum for
   subset p equals the sum of M[r][c0 + i] over the set bits i of p *)
Fixpoint bit_total (row : list Z) (p : positive) (c : nat) : Z :=
  match p with
  | xH => nth c row 0%Z
  | xO q => bit_total row q (S c)
  | xI q => (bit_total row q (S c) + nth c row 0)%Z
  end.

Lemma vadd_Z_nth : forall u v r, length u = length v ->
  nth r (PassiveModel.vadd Z Z.add u v) 0%Z = (nth r u 0 + nth r v 0)%Z.
Proof.
  induction u as [| a u IH]; intros [| b v] r H; simpl in *; try discriminate.
  - destruct r; reflexivity.
  - destruct r; [reflexivity |]. apply IH. lia.
Qed.

Lemma vadd_Z_length : forall u v, length u = length v ->
  length (PassiveModel.vadd Z Z.add u v) = length u.
Proof.
  intros u v H. unfold PassiveModel.vadd. rewrite map_length, combine_length. lia.
Qed.

Lemma bits_sum_Z_length (M : list (list Z)) : forall p c,
  length (bits_sum Z 0%Z Z.add M (length M) p c) = length M.
Proof.
  induction p as [q IH | q IH | ]; intros c; simpl.
  - rewrite vadd_Z_length; [apply IH |]. rewrite IH. unfold column. now rewrite map_length.
  - apply IH.
  - rewrite vadd_Z_length; [apply repeat_length |].
    rewrite repeat_length. unfold column. now rewrite map_length.
Qed.

Theorem bits_sum_is_sum_over_set_bits (M : list (list Z)) : forall p c r,
  (r < length M)%nat ->
  nth r (bits_sum Z 0%Z Z.add M (length M) p c) 0%Z = bit_total (nth r M []) p c.
Proof.
  assert (Hcol : forall c r, (r < length M)%nat ->
            nth r (column Z 0%Z M c) 0%Z = nth c (nth r M []) 0%Z).
  { intros c r Hr. unfold column.
    rewrite (nth_indep _ 0%Z (nth c [] 0%Z)) by (now rewrite map_length).
    rewrite (map_nth (fun row => nth c row 0%Z)). reflexivity. }
  induction p as [q IH | q IH | ]; intros c r Hr; simpl.
  - rewrite vadd_Z_nth.
    + rewrite IH by exact Hr. rewrite Hcol by exact Hr. reflexivity.
    + rewrite bits_sum_Z_length. unfold column. now rewrite map_length.
  - apply IH. exact Hr.
  - rewrite vadd_Z_nth.
    + rewrite Hcol by exact Hr.
      assert (nth r (repeat 0%Z (length M)) 0%Z = 0%Z) as ->.
      { clear. generalize (length M). induction r; intros [| m]; simpl; auto. }
      reflexivity.
    + rewrite repeat_length. unfold column. now rewrite map_length.
Qed.
