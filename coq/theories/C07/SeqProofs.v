(* C07 — every simulation step is a congruence of the full 2d x 2d moment matrix, and a program of
   steps is the congruence by the ordered product of the embedded matrices plus the accumulated
   shift of the mean (induction over the instruction list). *)
From Coq Require Import List Arith Bool Lia Ring Setoid Morphisms.
From PV Require Import C07.CxBase C07.MomentsModel C07.SumLemmas C07.MomentsProofs C07.MatF C07.StepK.
Import ListNotations.

Section Seq.
  Context {A : Type} (co : COps A).
  Local Notation "0" := (z0 co).
  Local Notation "1" := (z1 co).
  Local Infix "+" := (zadd co).
  Local Infix "*" := (zmul co).
  Local Notation conj := (zconj co).
  Local Notation sumn := (sumn co).
  Local Notation get := (get co).

  Hypothesis Ath : ring_theory 0 1 (zadd co) (zmul co) (zsub co) (zopp co) eq.
  Hypothesis conj_0 : conj 0 = 0.
  Hypothesis conj_1 : conj 1 = 1.
  Hypothesis conj_add : forall x y, conj (x + y) = conj x + conj y.
  Hypothesis conj_mul : forall x y, conj (x * y) = conj x * conj y.
  Hypothesis conj_conj : forall x, conj (conj x) = x.
  Add Ring Aring5 : Ath.

  Variable d : nat.
  Local Notation n2 := (Nat.add d d).

  (* ---- the state as a 2d x 2d matrix and a 2d vector *)
  Definition getf (M : mat (A := A)) : @fmat A := fun i j => get M i j.
  Definition Kof (C G : mat (A := A)) : @fmat A := Kblocks co d (getf C) (getf G).
  Definition muc (m : vec (A := A)) : @fvec A :=
    blkv d (fun i => getv co m i) (fun i => conj (getv co m i)).
  Definition herm (C : mat (A := A)) : Prop :=
    forall i j, i < d -> j < d -> conj (get C j i) = get C i j.
  Definition symm (G : mat (A := A)) : Prop :=
    forall i j, i < d -> j < d -> get G j i = get G i j.
  Definition zerov : @fvec A := fun _ => 0.

  (* ---- the matrix and the shift of one step *)
  Definition Sgate (modes : list nat) (P Am : mat (A := A)) : @fmat A :=
    Sof co d (embedP co modes P) (embedA co modes Am).
  Definition Sop (o : lop (A := A)) : @fmat A :=
    match o with
    | LPassive T modes => Sgate modes T []
    | LLinear P Am modes => Sgate modes P Am
    | LDisp _ _ => idf co
    end.
  Definition dop (o : lop (A := A)) : @fvec A :=
    match o with
    | LDisp alpha modes =>
        blkv d (fun i => match pos i modes with Some _ => alpha | None => 0 end)
               (fun i => match pos i modes with Some _ => conj alpha | None => 0 end)
    | _ => zerov
    end.

  (* side conditions: duplicate-free modes below d; unitary / symplectic blocks *)
  Definition modes_ok (modes : list nat) : Prop :=
    NoDup modes /\ (forall m, In m modes -> m < d).
  Definition sympl1 (k : nat) (P Am : mat (A := A)) : Prop :=
    forall a b, a < k -> b < k ->
      sumn k (fun c => get P a c * conj (get P b c))
      = (if Nat.eqb a b then 1 else 0) + sumn k (fun c => get Am a c * conj (get Am b c)).
  Definition sympl2 (k : nat) (P Am : mat (A := A)) : Prop :=
    forall a b, a < k -> b < k ->
      sumn k (fun c => get P a c * get Am b c) = sumn k (fun c => get P b c * get Am a c).
  Definition unitary_k (k : nat) (T : mat (A := A)) : Prop :=
    forall a b, a < k -> b < k ->
      sumn k (fun c => get T a c * conj (get T b c)) = (if Nat.eqb a b then 1 else 0).
  Definition valid (o : lop (A := A)) : Prop :=
    match o with
    | LPassive T modes => modes_ok modes /\ unitary_k (length modes) T
    | LLinear P Am modes => modes_ok modes /\ sympl1 (length modes) P Am /\ sympl2 (length modes) P Am
    | LDisp _ modes => modes_ok modes
    end.

  (* ---- bridges between the entry-wise specifications and the block products *)
  Lemma G_spec_Gexpr : forall modes P Am C G i j,
    G_spec co d modes P Am C G i j
    = Gexpr co d (embedP co modes P) (embedA co modes Am) (getf C) (getf G) i j.
  Proof.
    intros. unfold G_spec, Gexpr, addf. rewrite !(bil_eval co Ath). reflexivity.
  Qed.
  Lemma C_spec_Cexpr : forall modes P Am C G i j,
    C_spec co d modes P Am C G i j
    = Cexpr co d (embedP co modes P) (embedA co modes Am) (getf C) (getf G) i j.
  Proof.
    intros. unfold C_spec, Cexpr, addf. rewrite !(bil_eval co Ath). reflexivity.
  Qed.

  Lemma get_nil : forall a b, get [] a b = 0.
  Proof. intros a b. unfold MomentsModel.get. destruct a; destruct b; reflexivity. Qed.
  Lemma embedA_nil : forall modes i t, embedA co modes [] i t = 0.
  Proof.
    intros. unfold embedA. destruct (pos i modes); [|reflexivity].
    destruct (pos t modes); [apply get_nil|reflexivity].
  Qed.

  Lemma sumn_zero_ext : forall n f, (forall k, k < n -> f k = 0) -> sumn n f = 0.
  Proof. intros n f H. rewrite (sumn_ext co n f (fun _ => 0)) by assumption. apply (sumn_zero co Ath). Qed.

  (* the passive specification is the general one with a zero active block *)
  Lemma pspec_is_spec : forall modes P C G i j,
    C_pspec co d modes P C i j = C_spec co d modes P [] C G i j /\
    G_pspec co d modes P G i j = G_spec co d modes P [] C G i j.
  Proof.
    intros. unfold C_pspec, G_pspec, C_spec, G_spec, bil.
    assert (Z : forall (f : nat -> nat -> A), (forall k l, f k l = 0) ->
               sumn d (fun k => sumn d (fun l => f k l)) = 0).
    { intros f Hf. apply sumn_zero_ext. intros k _. apply sumn_zero_ext. intros l _. apply Hf. }
    split.
    - rewrite (Z (fun k l => cj co (embedA co modes []  i) k * CT1 co C k l * embedA co modes [] j l))
        by (intros; rewrite embedA_nil; ring).
      rewrite (Z (fun k l => cj co (embedP co modes P i) k * GH co G k l * embedA co modes [] j l))
        by (intros; rewrite embedA_nil; ring).
      rewrite (Z (fun k l => cj co (embedA co modes [] i) k * Gm co G k l * embedP co modes P j l))
        by (intros; unfold cj; rewrite embedA_nil, conj_0; ring).
      ring.
    - rewrite (Z (fun k l => embedA co modes [] i k * GH co G k l * embedA co modes [] j l))
        by (intros; rewrite !embedA_nil; ring).
      rewrite (Z (fun k l => embedP co modes P i k * CT1 co C k l * embedA co modes [] j l))
        by (intros; rewrite embedA_nil; ring).
      rewrite (Z (fun k l => embedA co modes [] i k * Cm co C k l * embedP co modes P j l))
        by (intros; rewrite embedA_nil; ring).
      ring.
  Qed.

  (* ---- the accessors of the three steps *)
  Lemma st_linear : forall P Am modes s,
    st_C (apply_linear co d P Am modes s) = fst (apply_linear_CG co d P Am modes (st_C s) (st_G s)) /\
    st_G (apply_linear co d P Am modes s) = snd (apply_linear_CG co d P Am modes (st_C s) (st_G s)) /\
    st_m (apply_linear co d P Am modes s) =
      assign_vec co d (st_m s) modes
        (vadd co (length modes) (mvmul co (length modes) (length modes) P (read_vec co (st_m s) modes))
           (mvmul co (length modes) (length modes) Am (vcj co (length modes) (read_vec co (st_m s) modes)))).
  Proof.
    intros. unfold apply_linear. destruct (apply_linear_CG co d P Am modes (st_C s) (st_G s)).
    repeat split.
  Qed.
  Lemma st_passive : forall T modes s,
    st_C (apply_passive co d T modes s) = fst (apply_passive_CG co d T modes (st_C s) (st_G s)) /\
    st_G (apply_passive co d T modes s) = snd (apply_passive_CG co d T modes (st_C s) (st_G s)) /\
    st_m (apply_passive co d T modes s) =
      assign_vec co d (st_m s) modes (mvmul co (length modes) (length modes) T (read_vec co (st_m s) modes)).
  Proof.
    intros. unfold apply_passive. destruct (apply_passive_CG co d T modes (st_C s) (st_G s)).
    repeat split.
  Qed.

  (* the complex mean vector (m, conj m) under  m' = Pf m + Af conj m *)
  Lemma muc_step : forall (Pf Af : @fmat A) (m m' : vec (A := A)),
    (forall i, i < d -> getv co m' i
       = sumn d (fun t => Pf i t * getv co m t) + sumn d (fun t => Af i t * conj (getv co m t))) ->
    eqv n2 (muc m') (mvf co n2 (Sof co d Pf Af) (muc m)).
  Proof.
    intros Pf Af m m' H. unfold muc, Sof. rewrite (mvf_blk co Ath d).
    apply blkv_proper; intros i Hi; unfold addv, mvf, cjf.
    - apply H. exact Hi.
    - rewrite (H i Hi). rewrite conj_add. rewrite !(sumn_conj co conj_0 conj_add).
      rewrite (Radd_comm Ath). f_equal; apply (sumn_ext co); intros t _; rewrite conj_mul, ?conj_conj; reflexivity.
  Qed.

  (* ---- one step *)
  Definition step_claim (o : lop (A := A)) (s s' : gstate (A := A)) : Prop :=
    eqm n2 (Kof (st_C s') (st_G s')) (cong co n2 (Sop o) (Kof (st_C s) (st_G s))) /\
    eqv n2 (muc (st_m s')) (addv co (mvf co n2 (Sop o) (muc (st_m s))) (dop o)) /\
    herm (st_C s') /\ symm (st_G s').

  Lemma addv_zerov : forall v, eqv n2 (addv co v zerov) v.
  Proof. intros v i _. unfold addv, zerov. ring. Qed.

  Lemma linear_step : forall P Am modes s,
    modes_ok modes -> sympl1 (length modes) P Am -> sympl2 (length modes) P Am ->
    herm (st_C s) -> symm (st_G s) ->
    step_claim (LLinear P Am modes) s (apply_linear co d P Am modes s).
  Proof.
    intros P Am modes s [Hnd Hlt] H1 H2 HC HG.
    destruct (st_linear P Am modes s) as (EC & EG & Em).
    pose proof (linear_CG_is_congruence co Ath conj_0 conj_1 conj_add conj_mul conj_conj
                  d modes P Am (st_C s) (st_G s) Hnd Hlt HC HG H2) as Hspec.
    pose proof (herm_sym_invariant co Ath conj_0 conj_1 conj_add conj_mul conj_conj
                  d modes P Am (st_C s) (st_G s) Hnd Hlt HC HG H2) as Hinv.
    unfold step_claim. rewrite EC, EG. simpl Sop. simpl dop. repeat split.
    - unfold Kof, Sgate.
      apply (step_full_K co Ath conj_0 conj_1 conj_add conj_mul conj_conj d).
      + intros i j Hi Hj. unfold trf, cjf, getf. apply HC; assumption.
      + intros i j Hi Hj. unfold trf, getf. apply HG; assumption.
      + intros i j Hi Hj.
        exact (embed_PPd co Ath conj_0 conj_1 d modes P Am Hnd Hlt H1 i j Hi Hj).
      + intros i j Hi Hj. unfold getf at 1. rewrite (proj2 (Hspec i j Hi Hj)). apply G_spec_Gexpr.
      + intros i j Hi Hj. unfold getf at 1. rewrite (proj1 (Hspec i j Hi Hj)). apply C_spec_Cexpr.
    - rewrite addv_zerov. unfold Sgate. apply muc_step. intros i Hi. rewrite Em.
      apply (linear_mean_is_congruence co Ath d modes P Am Hnd Hlt (st_m s) i Hi).
    - intros i j Hi Hj. apply (proj1 (Hinv i j Hi Hj)).
    - intros i j Hi Hj. apply (proj2 (Hinv i j Hi Hj)).
  Qed.

  Lemma passive_step : forall T modes s,
    modes_ok modes -> unitary_k (length modes) T ->
    herm (st_C s) -> symm (st_G s) ->
    step_claim (LPassive T modes) s (apply_passive co d T modes s).
  Proof.
    intros T modes s [Hnd Hlt] HU HC HG.
    destruct (st_passive T modes s) as (EC & EG & Em).
    pose proof (passive_CG_is_congruence co Ath conj_0 conj_1 conj_add conj_mul conj_conj
                  d modes T [] (st_C s) (st_G s) Hnd Hlt HC HG) as Hspec.
    pose proof (passive_herm_sym_invariant co Ath conj_0 conj_1 conj_add conj_mul conj_conj
                  d modes T [] (st_C s) (st_G s) Hnd Hlt HC HG) as Hinv.
    assert (H1 : sympl1 (length modes) T []).
    { intros a b Ha Hb. rewrite (HU a b Ha Hb).
      rewrite (sumn_zero_ext (length modes) (fun c => get [] a c * conj (get [] b c)))
        by (intros; rewrite get_nil; ring). ring. }
    unfold step_claim. rewrite EC, EG. simpl Sop. simpl dop. repeat split.
    - unfold Kof, Sgate.
      apply (step_full_K co Ath conj_0 conj_1 conj_add conj_mul conj_conj d).
      + intros i j Hi Hj. unfold trf, cjf, getf. apply HC; assumption.
      + intros i j Hi Hj. unfold trf, getf. apply HG; assumption.
      + intros i j Hi Hj.
        exact (embed_PPd co Ath conj_0 conj_1 d modes T [] Hnd Hlt H1 i j Hi Hj).
      + intros i j Hi Hj. unfold getf at 1. rewrite (proj2 (Hspec i j Hi Hj)).
        rewrite (proj2 (pspec_is_spec modes T (st_C s) (st_G s) i j)). apply G_spec_Gexpr.
      + intros i j Hi Hj. unfold getf at 1. rewrite (proj1 (Hspec i j Hi Hj)).
        rewrite (proj1 (pspec_is_spec modes T (st_C s) (st_G s) i j)). apply C_spec_Cexpr.
    - rewrite addv_zerov. unfold Sgate. apply muc_step. intros i Hi. rewrite Em.
      rewrite (passive_mean_is_congruence co Ath d modes T Hnd Hlt (st_m s) i Hi).
      rewrite (sumn_zero_ext d (fun t => embedA co modes [] i t * conj (getv co (st_m s) t)))
        by (intros; rewrite embedA_nil; ring). ring.
    - intros i j Hi Hj. apply (proj1 (Hinv i j Hi Hj)).
    - intros i j Hi Hj. apply (proj2 (Hinv i j Hi Hj)).
  Qed.

  Lemma disp_step : forall alpha modes s,
    modes_ok modes -> herm (st_C s) -> symm (st_G s) ->
    step_claim (LDisp alpha modes) s (apply_displacement co d alpha modes s).
  Proof.
    intros alpha modes s [Hnd Hlt] HC HG. unfold step_claim, apply_displacement. simpl.
    repeat split; try assumption.
    - rewrite (cong_idf co Ath conj_0 conj_1). reflexivity.
    - rewrite (mvf_idf co Ath). unfold muc.
      intros i Hi. unfold addv, blkv.
      assert (Hm : forall t, t < d ->
                getv co (assign_vec co d (st_m s) modes
                           (mkv (length modes) (fun a => getv co (read_vec co (st_m s) modes) a + alpha))) t
                = getv co (st_m s) t + match pos t modes with Some _ => alpha | None => 0 end).
      { intros t Ht. unfold assign_vec. rewrite (getv_mkv co) by assumption.
        destruct (pos t modes) as [a|] eqn:E; [|ring].
        destruct (pos_Some _ _ _ E) as [Ha Hna].
        rewrite (getv_mkv co) by assumption. unfold read_vec. rewrite (getv_mkv co) by assumption.
        rewrite Hna. reflexivity. }
      destruct (Nat.ltb_spec i d).
      + apply Hm. assumption.
      + rewrite Hm by lia. rewrite conj_add.
        destruct (pos (i - d) modes); [reflexivity|rewrite conj_0; reflexivity].
  Qed.

  Lemma lstep_claim : forall o s, valid o -> herm (st_C s) -> symm (st_G s) ->
    step_claim o s (lstep co d o s).
  Proof.
    intros [T modes|P Am modes|alpha modes] s Hv HC HG; simpl in Hv; simpl lstep.
    - destruct Hv as [Hm HU]. apply passive_step; assumption.
    - destruct Hv as (Hm & H1 & H2). apply linear_step; assumption.
    - apply disp_step; assumption.
  Qed.

  (* ---- a program: ordered product and accumulated shift *)
  Fixpoint Stot (prog : list (lop (A := A))) : @fmat A :=
    match prog with
    | [] => idf co
    | o :: r => mmf co n2 (Stot r) (Sop o)
    end.
  Fixpoint shift (prog : list (lop (A := A))) : @fvec A :=
    match prog with
    | [] => zerov
    | o :: r => addv co (mvf co n2 (Stot r) (dop o)) (shift r)
    end.

  Theorem sequence_congruence : forall prog s,
    Forall valid prog -> herm (st_C s) -> symm (st_G s) ->
    let s' := lrun co d prog s in
    eqm n2 (Kof (st_C s') (st_G s')) (cong co n2 (Stot prog) (Kof (st_C s) (st_G s))) /\
    eqv n2 (muc (st_m s')) (addv co (mvf co n2 (Stot prog) (muc (st_m s))) (shift prog)) /\
    herm (st_C s') /\ symm (st_G s').
  Proof.
    induction prog as [|o r IH]; intros s Hv HC HG.
    - simpl. repeat split; try assumption.
      + rewrite (cong_idf co Ath conj_0 conj_1). reflexivity.
      + rewrite (mvf_idf co Ath). rewrite addv_zerov. reflexivity.
    - inversion Hv as [|o' r' Ho Hr]; subst.
      destruct (lstep_claim o s Ho HC HG) as (K1 & M1 & C1 & G1).
      specialize (IH (lstep co d o s) Hr C1 G1). cbv zeta in IH.
      destruct IH as (K2 & M2 & C2 & G2).
      change (lrun co d (o :: r) s) with (lrun co d r (lstep co d o s)). cbv zeta.
      repeat split; try assumption.
      + rewrite K2. rewrite K1. simpl Stot.
        apply (cong_comp co Ath conj_0 conj_add conj_mul).
      + rewrite M2. rewrite M1. simpl Stot. simpl shift.
        rewrite (mvf_addv co Ath). rewrite (mvf_mmf co Ath).
        apply (addv_assoc co Ath).
  Qed.
End Seq.
