(* C17 - MathComp / CoqEAL side: the compound (minor) matrices are multiplicative
   (Cauchy-Binet, CoqEAL.theory.binetcauchy) and therefore the compound matrix of a unitary is
   unitary: sum_K det U[R,K] * conj (det U[C,K]) = [R = C]. *)
From mathcomp Require Import all_ssreflect all_algebra.
From CoqEAL Require Import minor binetcauchy.

Set Implicit Arguments.
Unset Strict Implicit.
Unset Printing Implicit Defensive.

Import GRing.Theory.
Local Open Scope ring_scope.

Section Compound.
Variable R : comRingType.
Variables (d n : nat).

(* det (A B)[f,g] = sum over increasing h of det A[f,h] * det B[h,g] *)
Theorem compound_mul (A B : 'M[R]_d) (f g : 'I_n -> 'I_d) :
  minor f g (A *m B) =
  \sum_(h : {ffun 'I_n -> 'I_d} | strictf h) minor f h A * minor h g B.
Proof.
rewrite /minor submatrix_mul BinetCauchy; apply: eq_bigr => h _.
by rewrite /minor !sub_submatrix; congr (\det _ * \det _); apply/matrixP => i j; rewrite !mxE.
Qed.

Lemma strict_neq_notin (f g : {ffun 'I_n -> 'I_d}) :
  strictf f -> strictf g -> f != g -> [exists i, f i \notin codom g].
Proof.
move=> hf hg hne; rewrite -negb_forall; apply/negP => /forallP hall.
have sub : codom f \subset codom g by apply/subsetP => x /codomP [i ->]; exact: hall.
have card : #|codom f| = #|codom g|.
  by rewrite !card_codom //; apply: inj_strictf.
have eqi := (subset_cardP card sub).
by move/eqP: hne; apply; apply: strictf_uniq => // x; exact: eqi.
Qed.

Lemma minor_id (f g : {ffun 'I_n -> 'I_d}) : strictf f -> strictf g ->
  minor f g (1%:M : 'M[R]_d) = (f == g)%:R.
Proof.
move=> hf hg; case: eqP => [-> | /eqP hne].
  by rewrite /minor submatrix_scalar_mx ?det1 //; apply: inj_strictf.
case/existsP: (strict_neq_notin hf hg hne) => i hi.
rewrite /minor (expand_det_row _ i) big1 // => j _; rewrite !mxE.
case h : (f i == g j); last by rewrite mulr0n mul0r.
by move: hi; rewrite (eqP h) codom_f.
Qed.

(* the compound matrix of an inverse pair is an inverse pair *)
Theorem compound_of_inverse (A B : 'M[R]_d) (f g : {ffun 'I_n -> 'I_d}) :
  A *m B = 1%:M -> strictf f -> strictf g ->
  \sum_(h : {ffun 'I_n -> 'I_d} | strictf h) minor f h A * minor h g B = (f == g)%:R.
Proof. by move=> e hf hg; rewrite -compound_mul e minor_id. Qed.

(* minors of the conjugate transpose *)
Lemma minor_adjoint (c : {rmorphism R -> R}) (U : 'M[R]_d) (h g : 'I_n -> 'I_d) :
  minor h g ((map_mx c U)^T) = c (minor g h U).
Proof.
rewrite /minor -det_map_mx -det_tr; congr (\det _).
by apply/matrixP => i j; rewrite !mxE.
Qed.

(* the compound matrix of a unitary is unitary (c = the conjugation) *)
Theorem compound_unitary (c : {rmorphism R -> R}) (U : 'M[R]_d) (f g : {ffun 'I_n -> 'I_d}) :
  U *m (map_mx c U)^T = 1%:M -> strictf f -> strictf g ->
  \sum_(h : {ffun 'I_n -> 'I_d} | strictf h) minor f h U * c (minor g h U) = (f == g)%:R.
Proof.
move=> e hf hg; rewrite -(compound_of_inverse e hf hg).
by apply: eq_bigr => h _; rewrite minor_adjoint.
Qed.

End Compound.
