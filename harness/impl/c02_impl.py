"""Implementation side of C02: runs piquasso's samplers with scripted / enumerating
random generators.  JSON request on stdin, one JSON line on stdout."""
import json
import sys
import warnings

import numpy as np

warnings.filterwarnings("ignore")

import piquasso as pq  # noqa: E402
from piquasso._simulators.passive import sampling as S  # noqa: E402
from piquasso._simulators.gaussian import simulation_steps as G  # noqa: E402
from piquasso._math import polynomial as P  # noqa: E402
from piquasso import _utils as UT  # noqa: E402
from piquasso.api.exceptions import InvalidSimulation  # noqa: E402

REAL_DEFAULT_RNG = np.random.default_rng


def cmat(m):
    return np.array([[complex(a, b) for a, b in row] for row in m], dtype=complex)


def fl(x):
    return [float(v) for v in np.asarray(x).ravel()]


# ----------------------------------------------------------------------------- generators
class ScriptRng:
    """Replays a script of numbers in [0,1): uniform()/random() return the number,
    choice(m) returns floor(r*m).  Every call is recorded."""

    def __init__(self, draws):
        self.draws = list(draws)
        self.pos = 0
        self.calls = []

    def __deepcopy__(self, memo):
        return self

    def _next(self):
        if self.pos >= len(self.draws):
            raise IndexError("script exhausted")
        v = self.draws[self.pos]
        self.pos += 1
        return v

    def uniform(self, *a, **k):
        v = self._next()
        self.calls.append(["u", v])
        return v

    def random(self, *a, **k):
        v = self._next()
        self.calls.append(["r", v])
        return v

    def _one(self, a, p):
        m = int(a) if isinstance(a, (int, np.integer)) else len(a)
        r = self._next()
        i = min(int(r * m), m - 1)
        if p is not None:
            # never draw an index of probability zero (a real generator cannot either)
            for _ in range(m):
                if float(p[i]) > 1e-12:
                    break
                i = (i + 1) % m
        self.calls.append(["c", m, i, None if p is None else fl(p)])
        return i if isinstance(a, (int, np.integer)) else a[i]

    def choice(self, a, size=None, p=None, **k):
        if size is None:
            return self._one(a, p)
        return np.array([self._one(a, p) for _ in range(int(size))])


class Pruned(Exception):
    pass


class EnumRng:
    """One path of a depth-first enumeration of every random choice; the weight of the path is
    the product of the probabilities the code itself handed to the generator."""

    def __init__(self, path, p_keep=None, threshold_box=None):
        self.path = path
        self.pos = 0
        self.weight = 1.0
        self.arity = []
        self.p_keep = p_keep
        self.threshold_box = threshold_box

    def __deepcopy__(self, memo):
        return self

    def _branch(self, probs):
        if self.pos < len(self.path):
            i = self.path[self.pos]
        else:
            i = 0
            self.path.append(0)
        self.arity.append(len(probs))
        self.pos += 1
        if not (probs[i] > 1e-15):
            raise Pruned()
        self.weight *= float(probs[i])
        return i

    def _one(self, a, p):
        m = int(a) if isinstance(a, (int, np.integer)) else len(a)
        probs = [1.0 / m] * m if p is None else [float(x) for x in p]
        i = self._branch(probs)
        return i if isinstance(a, (int, np.integer)) else a[i]

    def choice(self, a, size=None, p=None, **k):
        if size is None:
            return self._one(a, p)
        return np.array([self._one(a, p) for _ in range(int(size))])

    def uniform(self, *a, **k):
        # reject_condition: rng.uniform() > transmission probability
        i = self._branch([self.p_keep, 1.0 - self.p_keep])
        return 0.0 if i == 0 else 1.0

    def random(self, *a, **k):
        # rng.random() > p, p captured from the function that computed it
        p = self.threshold_box[0]
        i = self._branch([p, 1.0 - p])
        return 0.0 if i == 0 else 1.0


def enumerate_law(run_once, p_keep=None, threshold_box=None, limit=12000):
    """run_once(rng) -> hashable outcome.  Returns {outcome: probability}, number of leaves."""
    law = {}
    path = []
    leaves = 0
    while True:
        rng = EnumRng(path, p_keep, threshold_box)
        try:
            out = run_once(rng)
            law[out] = law.get(out, 0.0) + rng.weight
        except Pruned:
            pass
        leaves += 1
        if leaves > limit:
            raise RuntimeError("enumeration limit")
        path = path[: rng.pos]
        ar = rng.arity[: rng.pos]
        while path and path[-1] + 1 >= ar[len(path) - 1]:
            path.pop()
        if not path:
            break
        path[-1] += 1
    return law, leaves


# ----------------------------------------------------------------------------- scripted ties
def perm_laplace():
    from piquasso._simulators.connectors import NumpyConnector

    return NumpyConnector().permanent_laplace


def first_quantized(occ):
    return np.array([m for m, k in enumerate(occ) for _ in range(k)], dtype=int)


def events_of(calls, lossy):
    """Group the recorded generator calls into loop events."""
    ev = []
    i = 0
    while i < len(calls):
        c = calls[i]
        if lossy:
            if c[0] != "u":
                return None
            lost = c[2]
            i += 1
            if lost:
                ev.append(["L"])
                continue
        if i + 1 >= len(calls) or calls[i][0] != "c" or calls[i + 1][0] != "c":
            return None
        ev.append(["K", calls[i][2], calls[i + 1][2], calls[i + 1][3]])
        i += 2
    return ev


def run_postselect(case):
    U = cmat(case["U"])
    occ = case["input"]
    d = len(occ)
    n = int(sum(occ))
    rng = ScriptRng(case["draws"])
    p_keep = case.get("p_keep")
    if p_keep is None:
        rc = lambda: False  # noqa: E731
    else:
        def rc():
            v = rng.uniform()
            lost = bool(v > p_keep)   # the lambda of passive/simulation_steps.py
            rng.calls[-1].append(lost)
            return lost
    out = {"id": case["id"]}
    try:
        if case["kind"] == "plain":
            s = S._generate_sample(d, n, perm_laplace(), U, first_quantized(occ), rng=rng, reject_condition=rc)
        else:
            s = S._generate_sample_with_postselect(
                d, n, perm_laplace(), U, first_quantized(occ), rng=rng, reject_condition=rc,
                postselect_data=(tuple(case["ps_modes"]), tuple(case["ps_photons"]), case["trials"]),
                track_photons_needed=case.get("track", True))
        out["sample"] = [int(x) for x in s]
    except InvalidSimulation:
        out["sample"] = "TooManyTrials"
    except IndexError as e:
        out["sample"] = "OutOfScript" if "script exhausted" in str(e) else "IndexError"
    out["consumed"] = rng.pos
    out["events"] = events_of(rng.calls, p_keep is not None)
    return out


def run_trunc(case):
    shape = case["shape"]
    poly = np.array(case["poly"], dtype=float).reshape(shape)
    c = case["c"]
    ls = np.array(case["ls"], dtype=float)
    out = np.full(shape, 7.0)
    P.multiply_by_linear_truncated(poly.copy(), c, ls, out=out)
    al = poly.copy()
    P.multiply_by_linear_truncated(al, c, ls, out=al)
    return {"id": case["id"], "distinct": fl(out), "aliased": fl(al)}


def run_dist(case):
    """the post-selection tables of the uniform-overlap greedy sampler"""
    U = cmat(case["U"])
    dist = np.array(case["dist"], dtype=int)
    psm = np.array(case["ps_modes"], dtype=int)
    psp = np.array(case["ps_photons"], dtype=int)
    bound = np.array(case["ps_bound"], dtype=int)
    scalar = S._calculate_dist_postselection_probability(U, dist, psm, psp)
    table = S._calculate_dist_postselection_probability_table(U, dist, psm, bound)
    res = {"id": case["id"], "scalar": float(scalar), "table": [fl(t) for t in table]}
    rng = ScriptRng(case["draws"])
    try:
        smp = S._sample_dist_output_conditioned_on_postselection(U, dist, psm, psp, table, rng)
        res["sample"] = [int(x) for x in smp]
        res["weights"] = [c[3] for c in rng.calls]
        res["choices"] = [c[2] for c in rng.calls]
    except Exception as e:  # noqa: BLE001
        res["sample"] = "error:" + type(e).__name__
    return res


def run_counts(case):
    samples = [tuple(s) for s in case["samples"]]
    keys = []
    for s in samples:
        if s not in keys:
            keys.append(s)
    pm = {k: 1.0 / len(keys) for k in keys}
    real = UT.random.choices
    try:
        UT.random.choices = lambda population, weights, k: list(samples)
        fr = UT.sample_from_probability_map(pm, len(samples))
    finally:
        UT.random.choices = real
    return {"id": case["id"],
            "freq": [[list(k), v.numerator, v.denominator] for k, v in fr.items()]}


class Recorder:
    def __init__(self):
        self.args = None

    def __deepcopy__(self, memo):
        return self

    def multivariate_normal(self, mean, cov, size=None, **k):
        self.args = (np.array(mean, dtype=float), np.array(cov, dtype=float))
        n = 1 if size is None else int(size)
        return np.array([np.array(mean, dtype=float) + 0.25 * (i + 1) for i in range(n)])


def run_dyne(case):
    d = case["d"]
    hbar = case["hbar"]
    cfg = pq.Config(hbar=hbar, seed_sequence=1)
    sim = pq.GaussianSimulator(d=d, config=cfg)
    state = sim.create_initial_state()
    state.xpxp_covariance_matrix = np.array(case["sigma"], dtype=float)
    state.xpxp_mean_vector = np.array(case["mu"], dtype=float)
    modes = tuple(case["modes"])
    with pq.Program() as prog:
        if case["kind"] == "generaldyne":
            pq.Q(*modes) | pq.GeneraldyneMeasurement(np.array(case["sm"], dtype=float))
        elif case["kind"] == "heterodyne":
            pq.Q(*modes) | pq.HeterodyneMeasurement()
        else:
            pq.Q(*modes) | pq.HomodyneMeasurement(phi=case["phi"], z=case["z"])
    rec = Recorder()
    sim.config.rng = rec
    state._config.rng = rec
    res = sim.execute(prog, shots=case.get("shots", 2), initial_state=state)
    mean, cov = rec.args
    return {"id": case["id"], "mean": fl(mean), "cov": fl(cov), "dim": int(len(mean)),
            "entries": [len(s) for s in res.samples], "nsamples": len(res.samples),
            "first": fl(res.samples[0])}


# ----------------------------------------------------------------------------- exact law search
def passive_program(case, with_measurement=True, with_postselect=True):
    occ = case["input"]
    U = cmat(case["U"])
    with pq.Program() as prog:
        if case.get("overlap") is not None:
            pq.Q(all) | pq.DistinguishableNumberState(occ, particle_overlap=case["overlap"])
        else:
            pq.Q(all) | pq.NumberState(occ)
        pq.Q(all) | pq.Interferometer(U)
        if case.get("eta") is not None:
            pq.Q(all) | pq.UniformLoss(transmissivity=case["eta"])
        if case.get("loss") is not None:
            for m, t in enumerate(case["loss"]):
                pq.Q(m) | pq.Loss(transmissivity=t)
        if with_postselect and case.get("ps_modes"):
            pq.Q(*case["ps_modes"]) | pq.PostSelectPhotons(photon_counts=tuple(case["ps_photons"]))
        if with_measurement:
            if case.get("measure") is not None:
                pq.Q(*case["measure"]) | pq.ParticleNumberMeasurement()
            else:
                pq.Q(all) | pq.ParticleNumberMeasurement()
    return prog


def run_law(case):
    import time
    t0 = time.time()
    d = len(case["input"])
    n = int(sum(case["input"]))
    res = {"id": case["id"]}
    cfg = pq.Config(seed_sequence=5, cutoff=n + 1, max_sample_generation_trials=case.get("trials", 1))
    sim = pq.PassiveSimulator(d=d, config=cfg)
    # exact reference from the state's own probability function, without the post-selection
    try:
        st = sim.execute(passive_program(case, False, False)).state
        ref = st.fock_probabilities_map
        res["reference"] = [[[int(x) for x in k], float(v)] for k, v in ref.items() if abs(v) > 1e-15]
    except Exception as e:  # noqa: BLE001
        res["reference_error"] = type(e).__name__ + ": " + str(e)[:200]
    box = [1.0]
    real_calc = S._calculate_dist_postselection_probability

    def calc(*a, **k):
        v = real_calc(*a, **k)
        box[0] = float(v)
        return v

    # transmission probability of the uniform-loss branch (Loss with equal values on every
    # mode is uniform loss as well)
    p_keep = None if case.get("eta") is None else float(case["eta"]) ** 2
    if p_keep is None and case.get("loss") is not None and len(set(case["loss"])) == 1:
        p_keep = float(case["loss"][0]) ** 2

    def run_once(rng):
        np.random.default_rng = lambda *a, **k: rng
        S._calculate_dist_postselection_probability = calc
        try:
            sim2 = pq.PassiveSimulator(d=d, config=cfg.copy())
            sim2.config.rng = rng
            try:
                # a fresh program every time: an execution that raises leaves the
                # instructions' modes remapped
                r = sim2.execute(passive_program(case), shots=1)
            except InvalidSimulation:
                return "rejected"
            return tuple(int(x) for x in r.samples[0])
        finally:
            np.random.default_rng = REAL_DEFAULT_RNG
            S._calculate_dist_postselection_probability = real_calc

    try:
        law, leaves = enumerate_law(run_once, p_keep, box)
        res["law"] = [[("rejected" if k == "rejected" else list(k)), v] for k, v in law.items()]
        res["leaves"] = leaves
    except Exception as e:  # noqa: BLE001
        res["law_error"] = type(e).__name__ + ": " + str(e)[:300]
    res["seconds"] = round(time.time() - t0, 2)
    return res


def main():
    req = json.load(sys.stdin)
    import time
    out = {"file": pq.__file__, "seconds": {}}
    t = [time.time()]

    def lap(name):
        out["seconds"][name] = round(time.time() - t[0], 1)
        t[0] = time.time()
    out["postselect"] = [run_postselect(c) for c in req.get("postselect", [])]
    lap("postselect")
    out["trunc"] = [run_trunc(c) for c in req.get("trunc", [])]
    lap("trunc")
    out["dist"] = [run_dist(c) for c in req.get("dist", [])]
    lap("dist")
    out["counts"] = [run_counts(c) for c in req.get("counts", [])]
    lap("counts")
    out["dyne"] = [run_dyne(c) for c in req.get("dyne", [])]
    lap("dyne")
    out["law"] = [run_law(c) for c in req.get("law", [])]
    lap("law")
    print(json.dumps(out))


main()
