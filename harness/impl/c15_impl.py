"""Implementation side of C15 (exact tie): runs piquasso's Clements functions on unitaries
whose entries are Gaussian rationals (given as fractions, converted to float64 here)."""
import json
import sys
from fractions import Fraction

import numpy as np

import piquasso as pq
from piquasso.decompositions import clements as cl


def cplx(x):
    return [float(np.real(x)), float(np.imag(x))]


def mat_out(M):
    return [[cplx(x) for x in row] for row in np.asarray(M)]


def main():
    req = json.load(sys.stdin)
    connector = pq.NumpyConnector()
    config = pq.Config()
    out = {"exact": [], "commute": [], "identity_modes": {}, "file": cl.__file__}

    for case in req.get("exact", []):
        d = case["d"]
        U = np.array(
            [[complex(float(Fraction(a)), float(Fraction(b))) for a, b in row] for row in case["U"]],
            dtype=np.complex128,
        ).reshape(d, d)
        rec = {"id": case["id"], "d": d}
        try:
            dec = cl.clements(U.copy(), connector)
            rec["bs"] = [[int(b.modes[0]), int(b.modes[1]), float(b.params[0]), float(b.params[1])]
                         for b in dec.beamsplitters]
            rec["ps"] = [[int(p.mode), float(p.phi)] for p in dec.phaseshifters]
            rec["inv"] = mat_out(cl.inverse_clements(dec, connector, np.complex128))
            ins = cl.instructions_from_decomposition(dec)
            rec["instr"] = []
            M = np.identity(d, dtype=np.complex128)
            for i in ins:
                block = np.asarray(i._get_passive_block(connector, config))
                modes = [int(m) for m in i.modes]
                rec["instr"].append([type(i).__name__, modes,
                                     {k: float(v) for k, v in i.params.items()}])
                E = np.identity(d, dtype=np.complex128)
                E[np.ix_(modes, modes)] = block
                M = E @ M
            rec["instr_matrix"] = mat_out(M)
            w = cl.get_weights_from_decomposition(dec, d, connector)
            rec["weights"] = [float(x) for x in w]
            dec2 = cl.get_decomposition_from_weights(w, d, connector)
            rec["dec2_bs"] = [[int(b.modes[0]), int(b.modes[1]), float(b.params[0]), float(b.params[1])]
                              for b in dec2.beamsplitters]
            rec["dec2_ps"] = [[int(p.mode), float(p.phi)] for p in dec2.phaseshifters]
            rec["from_weights"] = mat_out(cl.get_interferometer_from_weights(w, d, connector, np.complex128))
            # the two passes separately (first column of the schedule), for the step-level tie
            col = d - 2
            if d >= 2:
                if col % 2 == 0:
                    ops, U1 = cl._apply_direct_beamsplitters(col, U.copy(), connector)
                else:
                    ops, U1 = cl._apply_inverse_beamsplitters(col, U.copy(), connector)
                rec["first_pass"] = {"column": col, "U": mat_out(U1),
                                     "ops": [[int(b.modes[0]), int(b.modes[1]), float(b.params[0]), float(b.params[1])] for b in ops]}
            rec["exc"] = None
        except Exception as e:  # noqa
            rec["exc"] = repr(e)
        out["exact"].append(rec)

    # _get_commute_angles on given angles
    for th, ph, p1, p2 in req.get("commute", []):
        r = cl._get_commute_angles(np.float64(th), np.float64(ph), np.float64(p1), np.float64(p2), connector)
        out["commute"].append([float(x) for x in r])

    # structure of clements(identity(d)) (what get_decomposition_from_weights relies on)
    for d in req.get("identity_modes", []):
        dec = cl.clements(np.identity(d), connector)
        out["identity_modes"][str(d)] = {
            "bs": [[int(b.modes[0]), int(b.modes[1])] for b in dec.beamsplitters],
            "ps": [int(p.mode) for p in dec.phaseshifters],
        }
    print(json.dumps(out))


main()
