(* C02 — consecutive shots of a stateless sampler follow the product law; the imperfect
   detector's sampled outcome has the product of the column entries as its law. *)
From Coq Require Import Reals Lra List Bool Arith Lia.
From PV Require Import Base.CasesLib C02.DistModel C02.DistProofs C02.ImperfectModel.
Import ListNotations.
Open Scope R_scope.

Lemma mass_dmap : forall A B (g : A -> B) (f : B -> bool) (d : rdist A),
  mass (dmap g d) f = mass d (fun a => f (g a)).
Proof.
  induction d as [|[a p] d IH]; [reflexivity|].
  change (dmap g ((a, p) :: d)) with ((g a, p) :: dmap g d). rewrite !mass_cons, IH. reflexivity.
Qed.

Lemma mass_ext : forall A (f g : A -> bool) (d : rdist A), (forall a, f a = g a) -> mass d f = mass d g.
Proof.
  intros A f g d H. induction d as [|[a p] d IH]; [reflexivity|]. rewrite !mass_cons, IH, H. reflexivity.
Qed.

Lemma mass_false : forall A (d : rdist A), mass d (fun _ => false) = 0.
Proof. induction d as [|[a p] d IH]; [reflexivity|]. rewrite mass_cons, IH. (nr; lra). Qed.

Lemma sum_indicator : forall A (h : A -> bool) (M : R) (d : rdist A),
  rsum (map (fun ap => snd ap * (if h (fst ap) then M else 0)) d) = mass d h * M.
Proof.
  induction d as [|[a p] d IH]; [cbn; lra|].
  rewrite map_cons, rsum_cons, mass_cons. cbn [fst snd].
  match goal with |- _ + ?X = _ => replace X with (mass d h * M) by (symmetry; exact IH) end.
  destruct (h a); (nr; lra).
Qed.

Fixpoint rprod (l : list R) : R := match l with [] => 1 | x :: r => x * rprod r end.

Section IID.
  Variable A : Type.
  Variable eqb : A -> A -> bool.
  Definition eqlA (l : list A) : list A -> bool := fun l' => list_eqb eqb l' l.

  Lemma mass_cons_event : forall (D : rdist (list A)) a x l,
    mass (dmap (cons a) D) (eqlA (x :: l)) = if eqb a x then mass D (eqlA l) else 0.
  Proof.
    intros. rewrite mass_dmap. destruct (eqb a x) eqn:E.
    - apply mass_ext. intros t. unfold eqlA. simpl. rewrite E. reflexivity.
    - rewrite <- (mass_false _ D). apply mass_ext. intros t. unfold eqlA. simpl. rewrite E. reflexivity.
  Qed.

  (* n consecutive shots: the probability of a sequence is the product of the single-shot
     probabilities, for every law d and every sequence *)
  Theorem iid_law : forall (d : rdist A) l,
    mass (iid d (length l)) (eqlA l) = rprod (map (fun x => mass d (fun a => eqb a x)) l).
  Proof.
    induction l as [|x l IH].
    - cbn. lra.
    - simpl length. simpl iid. rewrite mass_dbind.
      rewrite (map_ext _ (fun ap => snd ap * (if eqb (fst ap) x then mass (iid d (length l)) (eqlA l) else 0))).
      + pose proof (sum_indicator A (fun a => eqb a x) (mass (iid d (length l)) (eqlA l)) d) as Hs.
        cbv beta in Hs. rewrite Hs, IH. reflexivity.
      + intros [a p]. cbn [fst snd]. rewrite mass_cons_event. reflexivity.
  Qed.
End IID.

(* ---- imperfect detection *)
Lemma mass_seq_miss : forall (c : list R) s t, (t < s)%nat ->
  mass (N:=RN) (combine (seq s (length c)) c) (fun i => Nat.eqb i t) = 0.
Proof.
  induction c as [|w c IH]; intros s t H; [reflexivity|].
  simpl length. simpl seq. simpl combine. rewrite mass_cons, IH by lia.
  destruct (Nat.eqb_spec s t); [lia | (nr; lra)].
Qed.

Lemma mass_seq_hit : forall (c : list R) s x,
  mass (N:=RN) (combine (seq s (length c)) c) (fun i => Nat.eqb i (s + x)) = nth x c 0.
Proof.
  induction c as [|w c IH]; intros s x; [destruct x; reflexivity|].
  simpl length. simpl seq. simpl combine. rewrite mass_cons. destruct x as [|x].
  - rewrite Nat.add_0_r, Nat.eqb_refl. rewrite mass_seq_miss by lia. simpl. (nr; lra).
  - destruct (Nat.eqb_spec s (s + S x)); [lia|].
    replace (s + S x)%nat with (S s + x)%nat by lia. rewrite IH. simpl. (nr; lra).
Qed.

Lemma total_combine_seq : forall (c : list R) s, total (N:=RN) (combine (seq s (length c)) c) = rsum c.
Proof.
  induction c as [|w c IH]; intros s; [reflexivity|].
  simpl length. simpl seq. simpl combine. unfold total in *. rewrite map_cons, !rsum_cons, IH. reflexivity.
Qed.

Definition eqlN (l : list nat) : list nat -> bool := eqlA nat Nat.eqb l.

(* every column a probability distribution (sums to one): the sampled outcome o has probability
   prod_m column_m[o_m], which is the weight the shots=None branch assigns to it *)
Theorem imperfect_detection_law : forall (cols : list (list R)) (o : list nat),
  Forall (fun c => rsum c = 1) cols -> length o = length cols ->
  mass (detect (N:=RN) cols) (eqlN o) = outcome_probability (N:=RN) cols o.
Proof.
  induction cols as [|c cr IH]; intros o HF HL.
  - destruct o; try discriminate. cbn. lra.
  - destruct o as [|x xr]; try discriminate. inversion HF as [|? ? Hc HF']; subst.
    simpl detect. rewrite mass_dbind.
    rewrite (map_ext _ (fun ap => snd ap * (if Nat.eqb (fst ap) x then mass (detect (N:=RN) cr) (eqlN xr) else 0))).
    + pose proof (sum_indicator nat (fun a => Nat.eqb a x) (mass (detect (N:=RN) cr) (eqlN xr))
                                (choice (N:=RN) (combine (seq 0 (length c)) c))) as Hs.
      cbv beta in Hs. rewrite Hs, categorical_law, total_combine_seq, Hc.
      pose proof (mass_seq_hit c 0 x) as Hh. simpl in Hh. rewrite Hh.
      rewrite IH by (auto; simpl in HL; lia). simpl outcome_probability. (nr; field).
    + intros [a p]. cbn [fst snd]. unfold eqlN. rewrite mass_cons_event. reflexivity.
Qed.
