"""Implementation side of C13: builds programs from JSON scripts with real piquasso objects,
executes them on the real simulators with a counting wrapper around every simulation step,
and reports exception class / steps started and completed / visits / result."""
import importlib
import json
import random
import sys
import warnings

import numpy as np

warnings.simplefilter("ignore")

import piquasso as pq  # noqa: E402
import piquasso.fermionic  # noqa: E402,F401
from piquasso.api.exceptions import PiquassoException  # noqa: E402
from piquasso.api.instruction import Instruction  # noqa: E402


def resolve(qual):
    mod, name = qual.rsplit(".", 1)
    return getattr(importlib.import_module(mod), name)


def unitary(k, seed=1):
    rng = np.random.default_rng(seed)
    a = rng.normal(size=(k, k)) + 1j * rng.normal(size=(k, k))
    q, r = np.linalg.qr(a)
    return q * (np.diag(r) / np.abs(np.diag(r)))


def make(name, k, cutoff, variant, occn=None):
    """A valid (variant 'ok') or documented-invalid ('bad') instance acting on k modes."""
    bad = variant in ("bad", "unresolved_bad")
    k = max(k, 1)
    c = max(cutoff or 4, 1)
    if name == "Vacuum":
        return pq.Vacuum()
    if name == "Mean":
        return pq.Mean(np.full(2 * k, 0.1))
    if name == "Covariance":
        return pq.Covariance(np.identity(2 * k) * 2.0)
    if name == "Thermal":
        return pq.Thermal([-0.5] * k if bad else [0.5] * k)
    if name == "NumberState":
        occ = [0] * k
        if occn is not None:
            for j in range(min(occn, k)):
                occ[j] = 1
        elif c > 1:
            occ[0] = 1
        return pq.NumberState(occ)
    if name == "StateVector":
        occ = [0] * k
        if c > 1:
            occ[-1] = 1
        return pq.StateVector(occ)
    if name == "FockStateVector":
        return pq.FockStateVector({tuple([0] * k): 1.0})
    if name == "DensityMatrix":
        return pq.DensityMatrix(ket=[0] * k, bra=[0] * k)
    if name == "DistinguishableNumberState":
        occ = [0] * k
        if c > 1:
            occ[0] = 1
        return pq.DistinguishableNumberState(occ, particle_overlap=0.5)
    if name == "Create":
        return pq.Create()
    if name == "Annihilate":
        return pq.Annihilate()
    if name == "Interferometer":
        return pq.Interferometer(np.ones((k, k + 1)) if bad else unitary(k))
    if name == "Beamsplitter":
        return pq.Beamsplitter(theta=0.4, phi=0.3)
    if name == "Beamsplitter5050":
        return pq.Beamsplitter5050()
    if name == "Phaseshifter":
        return pq.Phaseshifter(phi=0.7)
    if name == "MachZehnder":
        return pq.MachZehnder(int_=0.3, ext=0.2)
    if name == "Fourier":
        return pq.Fourier()
    if name == "GaussianTransform":
        if bad:
            return pq.GaussianTransform(passive=2 * np.identity(k), active=np.zeros((k, k)))
        return pq.GaussianTransform(passive=unitary(k, 3), active=np.zeros((k, k)))
    if name == "Squeezing":
        return pq.Squeezing(r=0.1, phi=0.2)
    if name == "QuadraticPhase":
        return pq.QuadraticPhase(s=0.1)
    if name == "Squeezing2":
        return pq.Squeezing2(r=0.1, phi=0.2)
    if name == "ControlledX":
        return pq.ControlledX(s=0.1)
    if name == "ControlledZ":
        return pq.ControlledZ(s=0.1)
    if name == "Displacement":
        return pq.Displacement(r=0.1, phi=0.3)
    if name == "PositionDisplacement":
        return pq.PositionDisplacement(x=0.1)
    if name == "MomentumDisplacement":
        return pq.MomentumDisplacement(p=0.1)
    if name == "CubicPhase":
        return pq.CubicPhase(gamma=0.01)
    if name == "Kerr":
        return pq.Kerr(xi=0.1)
    if name == "CrossKerr":
        return pq.CrossKerr(xi=0.1)
    if name == "SNAP":
        return pq.SNAP(theta=np.linspace(0.0, 0.3, c))
    if name == "Graph":
        a = np.ones((k, k)) - np.identity(k)
        if bad:
            a = a.copy()
            a[0, -1] = 0.5 if k > 1 else 1.0
            if k == 1:
                a = np.array([[0.0, 1.0], [0.3, 0.0]])
        return pq.Graph(a)
    if name == "ParticleNumberMeasurement":
        return pq.ParticleNumberMeasurement()
    if name == "ImperfectParticleNumberMeasurement":
        return pq.ImperfectParticleNumberMeasurement(np.identity(c))
    if name == "ThresholdMeasurement":
        return pq.ThresholdMeasurement()
    if name == "GeneraldyneMeasurement":
        return pq.GeneraldyneMeasurement(detection_covariance=np.identity(2) * (0.1 if bad else 1.0))
    if name == "HomodyneMeasurement":
        return pq.HomodyneMeasurement()
    if name == "HeterodyneMeasurement":
        return pq.HeterodyneMeasurement()
    if name == "PostSelectPhotons":
        return pq.PostSelectPhotons(photon_counts=(0,) * k)
    if name == "ImperfectPostSelectPhotons":
        return pq.ImperfectPostSelectPhotons(photon_counts=(0,) * k,
                                             detector_efficiency_matrix=np.identity(c))
    if name == "DeterministicGaussianChannel":
        if bad:
            return pq.DeterministicGaussianChannel(X=np.identity(2 * k), Y=-np.identity(2 * k))
        return pq.DeterministicGaussianChannel(X=np.identity(2 * k), Y=np.zeros((2 * k, 2 * k)))
    if name == "Attenuator":
        return pq.Attenuator(theta=0.3, mean_thermal_excitation=-1.0 if bad else 0.0)
    if name == "Loss":
        return pq.Loss(transmissivity=0.9)
    if name == "UniformLoss":
        return pq.UniformLoss(transmissivity=1.5 if bad else 0.9)
    if name == "LossyInterferometer":
        return pq.LossyInterferometer(0.9 * unitary(k))
    if name == "IsingXX":
        return pq.fermionic.IsingXX(phi=0.3)
    if name == "ControlledPhase":
        return pq.fermionic.ControlledPhase(phi=0.3)
    if name == "GaussianHamiltonian":
        h = np.zeros((2 * k, 2 * k), dtype=complex)
        return pq.fermionic.GaussianHamiltonian(hamiltonian=h)
    if name == "ParentHamiltonian":
        h = np.zeros((2 * k, 2 * k), dtype=complex)
        return pq.fermionic.ParentHamiltonian(hamiltonian=h)
    raise KeyError("no catalogue entry for " + name)


KNOWN_EXN = ("InactiveModes", "InvalidParameter", "InvalidSimulation", "InvalidModes", "InvalidProgram",
             "InvalidState", "PiquassoException")


def fr(x):
    from fractions import Fraction
    return float(Fraction(x))


def make_pd(name, pd, cutoff):
    """An instance whose constrained parameter is given exactly by the descriptor [pd]."""
    kind = pd["kind"]
    mat = lambda m: np.array([[fr(x) for x in row] for row in m])  # noqa: E731
    if kind == "square":
        r, c = pd["rows"], pd["cols"]
        return pq.Interferometer(unitary(r) if r == c else np.ones((r, c)))
    if kind == "thermal":
        return pq.Thermal([fr(x) for x in pd["ns"]])
    if kind == "symmetric":
        return pq.Graph(mat(pd["m"]))
    if kind == "symplectic":
        return pq.GaussianTransform(passive=mat(pd["passive"]), active=mat(pd["active"]))
    if kind == "nonneg":
        return pq.Attenuator(theta=0.3, mean_thermal_excitation=fr(pd["x"]))
    if kind == "interval01":
        return pq.UniformLoss(transmissivity=fr(pd["x"]))
    if kind == "detector":
        return pq.ImperfectParticleNumberMeasurement(mat(pd["m"]))
    if kind == "snap":
        return pq.SNAP(theta=np.linspace(0.0, 0.3, pd["len"]))
    if kind == "occ":
        if name == "DensityMatrix":
            return pq.DensityMatrix(ket=pd["occ"], bra=pd["occ"])
        return getattr(pq, name)(pd["occ"])
    raise KeyError(kind)


def exc_enum(e):
    cls = type(e)
    if isinstance(e, PiquassoException):
        # nearest class of the documented hierarchy
        for b in cls.__mro__:
            if b.__name__ in KNOWN_EXN:
                return b.__name__
        return cls.__name__
    return "NonPiquasso(%s)" % cls.__name__


class Recorder:
    def __init__(self):
        self.events = []
        self.started = 0
        self.completed = 0
        self.index = {}

    def wrap(self, step):
        rec = self

        def wrapped(state, instruction, shots):
            rec.started += 1
            idx = rec.index.get(id(instruction), -1)
            try:
                out = step(state, instruction, shots)
            except BaseException:
                rec.events.append(["step", idx, -1])
                raise
            rec.completed += 1
            rec.events.append(["step", idx, len(out)])
            return out

        return wrapped


REC = None
_orig_cond = Instruction._is_condition_met


def _cond_patch(self, outcomes):
    res = _orig_cond(self, outcomes)
    if REC is not None:
        REC.events.append(["visit", REC.index.get(id(self), -1), bool(res)])
    return res


Instruction._is_condition_met = _cond_patch


def all_outcomes_sampler(probability_map, shots, *args, **kwargs):
    """Scripted categorical draw: every outcome the state can give, each once."""
    from fractions import Fraction

    keys = [s for s, p in probability_map.items() if p > 1e-12]
    return {s: Fraction(1, len(keys)) for s in keys}


def install_forcing():
    import piquasso._simulators.fock.general.simulation_steps as g
    import piquasso._simulators.fock.pure.simulation_steps as p
    import piquasso.fermionic.fock.simulation_steps as f

    for m in (g, p, f):
        m.sample_from_probability_map = all_outcomes_sampler


def uninstall_forcing():
    import piquasso._simulators.fock.general.simulation_steps as g
    import piquasso._simulators.fock.pure.simulation_steps as p
    import piquasso.fermionic.fock.simulation_steps as f
    from piquasso._utils import sample_from_probability_map as orig

    for m in (g, p, f):
        m.sample_from_probability_map = orig


def shots_value(s):
    t = s["t"]
    if t == "none":
        return None
    if t == "int":
        return int(s["v"])
    if t == "bool":
        return bool(s["v"])
    if t == "float":
        return float(s["v"])
    if t == "str":
        return str(s["v"])
    if t == "npint":
        return np.int64(s["v"])
    raise KeyError(t)


def build_instruction(spec, d, cutoff):
    cls = resolve(spec["cls"])
    reg = spec["reg"]
    modes = reg.get("modes") or []
    k = spec.get("k") or (len(modes) if modes else (d or 1))
    variant = spec.get("variant", "ok")
    if spec.get("pd"):
        ins = make_pd(cls.__name__, spec["pd"], cutoff)
    else:
        ins = make(cls.__name__, k, cutoff, variant, spec.get("occ"))
    if variant.startswith("unresolved"):
        # make one parameter outcome-dependent (callable), keeping its value
        name = next(iter(ins._params))
        val = ins._params[name]
        ins._params[name] = (lambda v: (lambda x: v))(val)
        ins._unresolved_params = ins._get_unresolved_params(ins._params)
    if spec.get("subclass"):
        sub = type("My" + cls.__name__, (cls,), {})
        ins.__class__ = sub
    cond = spec.get("cond")
    if cond == "always":
        ins.when(lambda x: True)
    elif cond == "never":
        ins.when(lambda x: False)
    elif cond:
        ins.when(cond)
    return ins


def run_case(case):
    global REC
    out = {"stage": None, "exc": None, "piquasso": None, "msg": None, "started": 0,
           "completed": 0, "events": [], "result": False, "branches": None}
    d = case.get("d")
    cutoff = case.get("cutoff")
    rec = Recorder()
    try:
        # ---- construction
        out["stage"] = "build"
        instrs = []
        listed = []
        with pq.Program() as program:
            for spec in case["script"]:
                ins = build_instruction(spec, case.get("dguess") or d, cutoff)
                reg = spec["reg"]
                if reg["t"] == "Q":
                    pq.Q(*reg["modes"]) | ins
                elif reg["t"] == "Qall":
                    pq.Q(all) | ins
                elif reg["t"] == "on":
                    program.instructions.append(ins.on_modes(*reg["modes"]))
                else:
                    program.instructions.append(ins)
                instrs.append(ins)
        for n, ins in enumerate(program.instructions):
            rec.index[id(ins)] = n
        sim_cls = resolve(case["sim"])
        kw = {}
        if cutoff is not None:
            kw["cutoff"] = cutoff
        if case.get("validate") is False:
            kw["validate"] = False
        if case.get("seed") is not None:
            kw["seed_sequence"] = int(case["seed"])
        random.seed(case.get("seed") or 0)
        cfg = pq.Config(**kw)
        sim = sim_cls(d=d, config=cfg)
        sim._instruction_map = {c: rec.wrap(f) for c, f in sim_cls._instruction_map.items()}
        init = None
        if case.get("init"):
            icls = resolve(case["init"]["sim"])
            init = icls(d=case["init"]["d"], config=cfg).create_initial_state()
        shots = shots_value(case["shots"])
        # ---- execution
        out["stage"] = "exec"
        REC = rec
        if case.get("force"):
            install_forcing()
        try:
            if case.get("validate_only"):
                sim.validate(program)
                res = None
            else:
                res = sim.execute(program, shots=shots, initial_state=init)
        finally:
            REC = None
            if case.get("force"):
                uninstall_forcing()
        out["stage"] = "done"
        if res is not None:
            out["result"] = True
            out["branches"] = len(res.branches)
            if case.get("touch"):
                out["stage"] = "touch"
                for b in res.branches:
                    st = b.state
                    if st is not None and hasattr(st, "validate"):
                        st.validate()
                    if st is not None and case["touch"] == "probs" and hasattr(st, "fock_probabilities"):
                        np.asarray(st.fock_probabilities)
                out["stage"] = "done"
    except BaseException as e:  # noqa: BLE001
        if isinstance(e, (KeyboardInterrupt, SystemExit, MemoryError)):
            raise
        out["exc"] = exc_enum(e)
        out["piquasso"] = isinstance(e, PiquassoException)
        out["msg"] = str(e)[:200]
    out["started"] = rec.started
    out["completed"] = rec.completed
    out["events"] = rec.events if len(rec.events) <= 400 else rec.events[:400]
    out["nevents"] = len(rec.events)
    return out


def main():
    req = json.load(sys.stdin)
    res = [run_case(c) for c in req["cases"]]
    print(json.dumps({"results": res}))


main()
