"""Run checks against the seeded changes kept under /verif/seeded/<id>/.

usage: seeded.py [--tier quick] [--only <id-substring>] [--props C06,C07]
Each seeded/<id>/ has patch.diff, a demonstration and meta.json
({"property": "C06", "needs": "...", "ran": "...", ...}).  The patch is applied to a scratch
worktree of /repo (never to /repo itself), the property's check is run with
VERIF_REPO=<worktree>, and the worktree is removed.  Results: seeded/RESULTS.json."""
import argparse
import json
import os
import subprocess
import sys
import time

VERIF = os.path.dirname(os.path.dirname(os.path.abspath(__file__)))
SEEDED = os.path.join(VERIF, "seeded")


def main():
    ap = argparse.ArgumentParser()
    ap.add_argument("--tier", default="quick")
    ap.add_argument("--only", default=None)
    ap.add_argument("--props", default=None)
    a = ap.parse_args()
    res_path = os.path.join(SEEDED, "RESULTS.json")
    results = json.load(open(res_path)) if os.path.exists(res_path) else {}
    for sid in sorted(os.listdir(SEEDED)):
        d = os.path.join(SEEDED, sid)
        if not os.path.isdir(d) or not os.path.exists(os.path.join(d, "patch.diff")):
            continue
        if a.only and a.only not in sid:
            continue
        meta = json.load(open(os.path.join(d, "meta.json")))
        props = a.props.split(",") if a.props else [meta["property"]] + meta.get("also_run", [])
        wt = "/tmp/seeded-wt-%s-%d" % (sid, os.getpid())
        subprocess.run(["git", "-C", "/repo", "worktree", "add", "--detach", wt], check=True, capture_output=True)
        try:
            subprocess.run(["git", "-C", wt, "apply", os.path.join(d, "patch.diff")], check=True)
            for p in props:
                t0 = time.time()
                env = dict(os.environ, VERIF_REPO=wt, VERIF_TIER=a.tier, VERIF_EVIDENCE_DIR=os.path.join(wt, ".evidence"))
                r = subprocess.run([os.path.join(VERIF, "check"), p, "--tier", a.tier], capture_output=True, text=True, env=env, cwd=VERIF)
                viol = [l for l in r.stdout.splitlines() if l.startswith("VIOLATION")]
                results.setdefault(sid, {})[p] = {
                    "tier": a.tier,
                    "exit": r.returncode,
                    "caught": bool(viol) and r.returncode == 1,
                    "line": viol[0] if viol else "",
                    "no_failing_input": any("no-failing-input-found" in l for l in viol),
                    "wall_s": round(time.time() - t0, 1),
                }
                print(sid, p, results[sid][p])
                sys.stdout.flush()
        finally:
            subprocess.run(["git", "-C", "/repo", "worktree", "remove", "--force", wt], capture_output=True)
    json.dump(results, open(res_path, "w"), indent=1, sort_keys=True)


main()
