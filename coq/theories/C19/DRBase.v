(* C19 — base types shared by the generated file EncodeGen.v and the model DRModel.v.
   Definitions only.

   Scalars: an abstract type A with operations [ops A] (the REAL scalars: instantiated at the
   reals for the theorems "for all angles", and at Q(sqrt 2) to run the model).  Complex
   numbers are pairs of scalars, built here, so the imaginary unit needs no hypothesis. *)
From Coq Require Import ZArith QArith List Bool String.
Import ListNotations.

Record ops (A : Type) := mkops {
  o0 : A; o1 : A;
  oadd : A -> A -> A; omul : A -> A -> A; oopp : A -> A;
  ohh : A   (* 1/sqrt 2 = cos(pi/4) = sin(pi/4): only law used is 2*hh*hh = 1 *)
}.
Arguments o0 {A} _. Arguments o1 {A} _. Arguments oadd {A} _ _ _. Arguments omul {A} _ _ _.
Arguments oopp {A} _ _. Arguments ohh {A} _.

Section Cplx.
  Context {A : Type} (O : ops A).
  Definition cplx := (A * A)%type.
  Definition cre (a : A) : cplx := (a, o0 O).
  Definition czero : cplx := (o0 O, o0 O).
  Definition cone : cplx := (o1 O, o0 O).
  Definition cimag : cplx := (o0 O, o1 O).
  Definition cadd (x y : cplx) : cplx := (oadd O (fst x) (fst y), oadd O (snd x) (snd y)).
  Definition copp (x : cplx) : cplx := (oopp O (fst x), oopp O (snd x)).
  Definition cmul (x y : cplx) : cplx :=
    (oadd O (omul O (fst x) (fst y)) (oopp O (omul O (snd x) (snd y))),
     oadd O (omul O (fst x) (snd y)) (omul O (snd x) (fst y))).
  Definition cconj (x : cplx) : cplx := (fst x, oopp O (snd x)).
  (* e^{i a} from (cos a, sin a) *)
  Definition cis (c s : A) : cplx := (c, s).
  Definition cnorm2 (x : cplx) : A := oadd O (omul O (fst x) (fst x)) (omul O (snd x) (snd x)).

  (* 2x2 complex matrices, row major: ((a,b),(c,d)) *)
  Definition mat2 := ((cplx * cplx) * (cplx * cplx))%type.
  Definition mid2 : mat2 := ((cone, czero), (czero, cone)).
  Definition mmul2 (m n : mat2) : mat2 :=
    let '((a, b), (c, d)) := m in
    let '((e, f), (g, h)) := n in
    ((cadd (cmul a e) (cmul b g), cadd (cmul a f) (cmul b h)),
     (cadd (cmul c e) (cmul d g), cadd (cmul c f) (cmul d h))).
End Cplx.

(* Angles as they occur in the programs emitted by piquasso/dual_rail_encoding.py:
   a rational multiple of pi, a rational multiple of the k-th gate parameter, or plus/minus one of
   the two fixed beamsplitter angles of _cz_on_two_bosonic_qubits (flag true = negated). *)
Inductive ang :=
| ATurn (q : Q)
| APar (k : nat) (a : Q)
| AK1 (neg : bool)
| AK2 (neg : bool).

(* One emitted instruction, modes given as positions ("slots") in the list modes ++ aux_modes
   that _map_qiskit_instr_to_pq receives. *)
Inductive einstr :=
| EPS (slot : nat) (phi : ang)                       (* pq.Phaseshifter(phi).on_modes(m) *)
| EBS (s1 s2 : nat) (theta phi : ang)                (* pq.Beamsplitter(theta, phi).on_modes(m1, m2) *)
| EPost (s1 s2 : nat) (n1 n2 : nat)                  (* pq.PostSelectPhotons([n1,n2]).on_modes(m1, m2) *)
| EMeas (s1 s2 : nat).                               (* pq.ParticleNumberMeasurement().on_modes(m1, m2) *)
