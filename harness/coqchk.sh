#!/bin/bash
# Re-check every Props/Cxx.vo (and everything it depends on) with the independent checker and
# record the context summary (axioms of every loaded library). Output: coq/COQCHK.txt
cd "$(dirname "$0")/../coq" || exit 2
out=COQCHK.txt; : > $out.tmp
for p in C01 C04 C05 C06 C07 C08 C10 C11 C12 C13 C14 C15 C16 C18 C20 C02 C03 C09 C17 C19; do
  echo "=== Props/$p.vo" >> $out.tmp
  timeout 2400 coqchk -silent -o -Q theories PV PV.Props.$p 2>&1 | sed -n '/CONTEXT SUMMARY/,$p' >> $out.tmp
  echo "exit status: ${PIPESTATUS[0]}" >> $out.tmp
done
mv $out.tmp $out
