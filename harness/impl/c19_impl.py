"""Implementation side of C19: runs piquasso's dual-rail encoder and the pure Fock simulator.

Request (JSON on stdin):
  {"sentinel": true}                      -> "emitted": the instruction lists that
        piquasso.dual_rail_encoding._map_qiskit_instr_to_pq emits for every supported gate
        name when called with symbolic (sentinel) parameters and sentinel modes
  {"circuits": [circuit, ...]}            -> "runs": per circuit the emitted program
        (structure) and the exact (shots=None) result of PureFockSimulator
  {"postproc": [[tuple, ...], ...]}       -> get_bosonic_qubit_samples on each list
A circuit is {"n": qubits, "ncl": clbits, "ops": [op...]}, an op one of
  {"g": name, "q": [qubits], "a": [angles as floats]}            gate
  {"g": "measure", "q": [q], "c": clbit}
  {"g": "if", "c": clbit, "v": 0|1, "body": [ops], "else": [ops] (optional)}
"""
import json
import sys
import types
from fractions import Fraction

import numpy as np


# --------------------------------------------------------------------------- sentinels
class Sym(float):
    """A float that remembers the linear form  sum_k lin[k]*theta_k + const  it stands for.
    Any operation it does not know returns a plain float: the information is lost and the
    translator of the check then fails closed (the value is no multiple of pi/18000)."""

    def __new__(cls, val, lin=None, const=0.0):
        o = float.__new__(cls, val)
        o.lin = dict(lin or {})
        o.const = float(const)
        return o

    @staticmethod
    def _num(x):
        return isinstance(x, (int, float, np.floating, np.integer)) and not isinstance(x, Sym)

    def _scale(self, f):
        f = float(f)
        fr = Fraction(f)
        return Sym(float(self) * f, {k: v * fr for k, v in self.lin.items()}, self.const * f)

    def __mul__(self, o):
        return self._scale(o) if Sym._num(o) else float(self) * float(o)

    __rmul__ = __mul__

    def __truediv__(self, o):
        if Sym._num(o) and float(o) != 0:
            return self._scale(1.0 / float(o))
        return float(self) / float(o)

    def __neg__(self):
        return self._scale(-1.0)

    def __pos__(self):
        return self

    def __add__(self, o):
        if isinstance(o, Sym):
            lin = dict(self.lin)
            for k, v in o.lin.items():
                lin[k] = lin.get(k, Fraction(0)) + v
            return Sym(float(self) + float(o), lin, self.const + o.const)
        if Sym._num(o):
            return Sym(float(self) + float(o), self.lin, self.const + float(o))
        return float(self) + float(o)

    __radd__ = __add__

    def __sub__(self, o):
        return self.__add__(-o if isinstance(o, Sym) else -float(o))

    def __rsub__(self, o):
        return (-self).__add__(o)


SENT_VALUES = [0.7310585786300049, 1.2689414213699951, 0.3775406687981454]


def describe_param(v):
    if isinstance(v, Sym):
        return {"sym": {str(k): [c.numerator, c.denominator] for k, c in v.lin.items() if c != 0},
                "const": v.const}
    if isinstance(v, (list, tuple, np.ndarray)):
        return {"list": [int(x) for x in v]}
    if isinstance(v, (int, float, np.floating, np.integer)):
        return {"const": float(v)}
    return {"unknown": repr(v)}


def describe_instr(ins):
    return {"cls": type(ins).__name__, "modes": [int(m) for m in ins.modes],
            "params": {k: describe_param(v) for k, v in ins.params.items()}}


GATE_ARITY = {"h": 0, "x": 0, "y": 0, "z": 0, "rx": 1, "ry": 1, "rz": 1, "u": 3, "u3": 3, "p": 1,
              "cz": 0, "cx": 0, "measure": 0}


def sentinel_lists():
    from piquasso import dual_rail_encoding as dre

    out = {}
    for name, ar in GATE_ARITY.items():
        params = [Sym(SENT_VALUES[k], {k: Fraction(1)}) for k in range(ar)]
        fake = types.SimpleNamespace(name=name, params=params)
        if name == "cz":
            modes, aux = [0, 1], [2, 3]
        elif name == "cx":
            modes, aux = [0, 1, 2, 3], [4, 5]
        else:
            modes, aux = [0, 1], []
        lst = dre._map_qiskit_instr_to_pq(fake, modes, aux)
        out[name] = [describe_instr(i) for i in lst]
    # the p gate special-cases an angle close to 0
    fake = types.SimpleNamespace(name="p", params=[0.0])
    out["p_zero"] = [describe_instr(i) for i in dre._map_qiskit_instr_to_pq(fake, [0, 1], [])]
    # unsupported names must be refused
    refused = []
    for name in ("s", "t", "swap", "ccx", "id", "barrier", "reset"):
        try:
            dre._map_qiskit_instr_to_pq(types.SimpleNamespace(name=name, params=[]), [0, 1], [])
            refused.append([name, False])
        except ValueError:
            refused.append([name, True])
        except Exception as e:  # noqa
            refused.append([name, type(e).__name__])
    return out, refused


# --------------------------------------------------------------------------- circuits
def build_qiskit(c):
    from qiskit import QuantumCircuit

    qc = QuantumCircuit(c["n"], c["ncl"])

    def add(op):
        g = op["g"]
        if g == "measure":
            qc.measure(op["q"][0], op["c"])
        elif g == "if":
            if op.get("else"):
                with qc.if_test((qc.clbits[op["c"]], op["v"])) as else_:
                    for o in op["body"]:
                        add(o)
                with else_:
                    for o in op["else"]:
                        add(o)
            else:
                with qc.if_test((qc.clbits[op["c"]], op["v"])):
                    for o in op["body"]:
                        add(o)
        else:
            getattr(qc, g)(*op.get("a", []), *op["q"])

    for op in c["ops"]:
        add(op)
    return qc


def probe_condition(cond, ncl):
    """Which pair of outcome positions does the condition read, and which value does it want?
    Behavioural: evaluate it on code-word outcome tuples."""
    if cond is None:
        return None
    base = [1, 0] * ncl
    try:
        r0 = bool(cond(tuple(base)))
    except Exception as e:  # noqa
        return {"error": type(e).__name__}
    deps = []
    for k in range(ncl):
        o = list(base)
        o[2 * k], o[2 * k + 1] = 0, 1
        if bool(cond(tuple(o))) != r0:
            deps.append(k)
    # shortest outcome tuple on which it can be evaluated
    need = None
    for ln in range(0, ncl + 1):
        try:
            cond(tuple([1, 0] * ln))
            need = ln
            break
        except Exception:  # noqa
            continue
    return {"reads": deps, "value": 0 if r0 else 1, "needs_pairs": need}


def exc_kind(e):
    return type(e).__name__


def run_circuit(c):
    import piquasso as pq
    from piquasso.dual_rail_encoding import dual_rail_encode_from_qiskit

    rec = {}
    try:
        qc = build_qiskit(c)
    except Exception as e:  # noqa
        return {"error": "qiskit:" + exc_kind(e) + ":" + str(e)[:200]}
    try:
        prog = dual_rail_encode_from_qiskit(qc)
    except Exception as e:  # noqa
        return {"error": "encode:" + exc_kind(e) + ":" + str(e)[:200]}
    instrs = prog.instructions
    rec["program"] = []
    for ins in instrs:
        d = describe_instr(ins)
        d["cond"] = probe_condition(getattr(ins, "_condition", None), max(c["ncl"], 1))
        rec["program"].append(d)
    d = max(max(i.modes) for i in instrs) + 1
    photons = 0
    for ins in instrs:
        if type(ins).__name__ == "Create":
            photons += len(ins.modes)
    # piquasso refuses passive gates below cutoff 3 (finding 9 of DESIGN section 5, not this property)
    cutoff = max(3, photons + c.get("extra_cutoff", 1))
    rec["d"], rec["cutoff"] = d, cutoff
    import time as _time
    _t0 = _time.time()
    try:
        sim = pq.PureFockSimulator(d=d, config=pq.Config(cutoff=cutoff))
        res = sim.execute(prog, shots=None)
        rec["t_exec"] = round(_time.time() - _t0, 3)
    except Exception as e:  # noqa
        rec["error"] = "execute:" + exc_kind(e) + ":" + str(e)[:200]
        return rec
    branches = []
    for b in res.branches:
        fin = []
        if b.state is not None:
            for occ, amp in b.state.fock_amplitudes_map.items():
                p = float(abs(amp) ** 2)
                if p > 1e-18:
                    fin.append([[int(x) for x in occ], p])
        else:
            fin.append([[], 1.0])
        branches.append({"outcome": [int(x) for x in b.outcome], "freq": float(b.frequency), "final": fin})
    rec["branches"] = branches
    return rec


# --------------------------------------------------------------------------- Qiskit reference
def qiskit_reference(c):
    """Exact joint distribution of the Qiskit circuit, computed with qiskit.quantum_info
    (Statevector.evolve with the circuit's own gate objects; projective measurements and
    if_else by trajectory enumeration).  Index: bit string x (qubit 0 first); the answers of
    the measurements are the bits of x at the measured qubits."""
    from qiskit.quantum_info import Statevector

    qc = build_qiskit(c)
    n = c["n"]
    table = []
    for xi in range(2 ** n):
        x = [(xi >> q) & 1 for q in range(n)]  # qubit 0 is the least significant bit (all_bits order of the model)
        sv = Statevector.from_label("0" * n)
        clbits = {}

        def proj(sv, q, o):
            data = sv.data.copy()
            for idx in range(len(data)):
                if ((idx >> q) & 1) != o:
                    data[idx] = 0
            return Statevector(data)

        def run(circ, qmap, cmap, sv):
            for ins in circ.data:
                qs = [qmap[circ.find_bit(b).index] for b in ins.qubits]
                cs = [cmap[circ.find_bit(b).index] for b in ins.clbits]
                if ins.name == "measure":
                    o = x[qs[0]]
                    sv = proj(sv, qs[0], o)
                    clbits[cs[0]] = o
                elif ins.name == "if_else":
                    bit, val = ins.operation.condition
                    cidx = cmap[circ.find_bit(bit).index]
                    body = ins.operation.params[0] if clbits.get(cidx, 0) == int(val) else ins.operation.params[1]
                    if body is not None:
                        sv = run(body, qs, cs, sv)
                else:
                    sv = sv.evolve(ins.operation, qargs=qs)
            return sv

        sv = run(qc, list(range(n)), list(range(c["ncl"])), sv)
        idx = sum(x[q] << q for q in range(n))
        table.append(float(abs(sv.data[idx]) ** 2))
    return table


def main():
    req = json.load(sys.stdin)
    out = {}
    if req.get("sentinel"):
        out["emitted"], out["refused"] = sentinel_lists()
    if "circuits" in req:
        out["runs"] = [run_circuit(c) for c in req["circuits"]]
        if req.get("reference"):
            for c, r in zip(req["circuits"], out["runs"]):
                try:
                    r["qiskit"] = qiskit_reference(c)
                except Exception as e:  # noqa
                    r["qiskit_error"] = exc_kind(e) + ":" + str(e)[:200]
    if "postproc" in req:
        from piquasso.dual_rail_encoding import get_bosonic_qubit_samples

        pp = []
        for raw in req["postproc"]:
            try:
                pp.append({"ok": [list(t) for t in get_bosonic_qubit_samples([tuple(r) for r in raw])]})
            except Exception as e:  # noqa
                pp.append({"error": exc_kind(e)})
        out["postproc"] = pp
    print(json.dumps(out))


main()
