(* C04 -- from the jobs to the Glynn sum: the job ranges partition the offsets 0..idx_max-1,
   the Gray map is a bijection from the offsets onto the box prod_i [0..r_i], and vector sums
   may be regrouped; hence the kernel loop (all jobs together) computes exactly glynn_sum. *)
From Coq Require Import ZArith List Bool Lia ZifyBool Ring InitialRing Setoid Permutation.
From PV Require Import Comb.Binom C04.PermModel C04.PermProofs C04.LoopProofs C04.GrayProofs C04.JobProofs.
Import ListNotations.
Local Close Scope Z_scope.
Local Open Scope nat_scope.

(* ------------------------------------------------------------------ lists *)
Lemma seq_add_map : forall n s, seq s n = map (fun a => s + a) (seq 0 n).
Proof.
  induction n as [|n IH]; intros s; [reflexivity|].
  cbn [seq map]. f_equal; [lia|].
  rewrite (IH (S s)), <- seq_shift, map_map. apply map_ext. intros a. lia.
Qed.

Lemma seq_mul_aux n : forall M,
  seq 0 (M * n) = flat_map (fun q => map (fun a => q * n + a) (seq 0 n)) (seq 0 M).
Proof.
  induction M as [|M IH]; [reflexivity|].
  rewrite seq_S, flat_map_app, <- IH. cbn [flat_map Nat.add]. rewrite app_nil_r.
  replace (S M * n) with (M * n + n) by lia. rewrite seq_app. cbn [Nat.add]. f_equal.
  apply seq_add_map.
Qed.

Lemma map_flat_map {X Y Z} (h : Y -> Z) (f : X -> list Y) : forall l,
  map h (flat_map f l) = flat_map (fun x => map h (f x)) l.
Proof. induction l as [|x l IH]; [reflexivity|]. cbn [flat_map]. now rewrite map_app, IH. Qed.

Lemma flat_map_map {X Y Z} (f : Y -> list Z) (g : X -> Y) : forall l,
  flat_map f (map g l) = flat_map (fun x => f (g x)) l.
Proof. induction l as [|x l IH]; [reflexivity|]. cbn [map flat_map]. now rewrite IH. Qed.

Lemma flat_map_ext_in' {X Y} (f g : X -> list Y) : forall l,
  (forall x, In x l -> f x = g x) -> flat_map f l = flat_map g l.
Proof.
  induction l as [|x l IH]; intros H; [reflexivity|]. cbn [flat_map].
  rewrite (H x (or_introl eq_refl)), IH; auto. intros y Hy. apply H. now right.
Qed.

Lemma flat_map_perm_pointwise {X Y} (f g : X -> list Y) : forall l,
  (forall x, In x l -> Permutation (f x) (g x)) -> Permutation (flat_map f l) (flat_map g l).
Proof.
  induction l as [|x l IH]; intros H; [constructor|]. cbn [flat_map].
  apply Permutation_app; [apply H; now left|]. apply IH. intros y Hy. apply H. now right.
Qed.

Lemma flat_map_perm {X Y} (f : X -> list Y) : forall l l',
  Permutation l l' -> Permutation (flat_map f l) (flat_map f l').
Proof.
  induction 1 as [|x l l' _ IH|x y l|l l' l'' _ IH1 _ IH2]; cbn [flat_map].
  - constructor.
  - now apply Permutation_app_head.
  - rewrite !app_assoc. apply Permutation_app_tail. apply Permutation_app_comm.
  - etransitivity; eauto.
Qed.

(* ------------------------------------------------------------------ the job partition *)
Definition job_range (im conc j : nat) : list nat :=
  let '(a, b) := job_bounds im conc j in seq a (S (b - a)).

Lemma chunks_seq wbatch : forall c, flat_map (fun j => seq (j * wbatch) wbatch) (seq 0 c) = seq 0 (c * wbatch).
Proof.
  induction c as [|c IH]; [reflexivity|].
  rewrite seq_S, flat_map_app, IH. cbn [flat_map Nat.add]. rewrite app_nil_r.
  replace (S c * wbatch) with (c * wbatch + wbatch) by lia. now rewrite seq_app.
Qed.

(* the jobs cover every offset exactly once, in order *)
Theorem jobs_partition im conc : 1 <= conc -> conc <= im ->
  flat_map (job_range im conc) (seq 0 conc) = seq 0 im.
Proof.
  intros Hc Hle. destruct conc as [|c]; [lia|].
  pose proof (Nat.div_mod im (S c) ltac:(lia)) as E.
  pose proof (Nat.mod_upper_bound im (S c) ltac:(lia)) as Hm.
  assert (Hwb : 1 <= im / S c) by (apply Nat.div_le_lower_bound; lia).
  set (wbatch := im / S c) in *.
  rewrite seq_S, flat_map_app. cbn [flat_map Nat.add]. rewrite app_nil_r.
  rewrite (flat_map_ext_in' _ (fun j => seq (j * wbatch) wbatch)).
  - rewrite chunks_seq. unfold job_range, job_bounds. fold wbatch.
    replace (c =? S c - 1) with true by lia.
    replace (S (im - 1 - c * wbatch)) with (im - c * wbatch) by nia.
    rewrite <- seq_app. f_equal. nia.
  - intros j Hj. apply in_seq in Hj. unfold job_range, job_bounds. fold wbatch.
    replace (j =? S c - 1) with false by lia. f_equal. nia.
Qed.

(* ------------------------------------------------------------------ the Gray bijection *)
Lemma gray_of_cons_mul n L q a : 1 <= n -> a < n ->
  gray_of (n :: L) (q * n + a) =
  (if Nat.odd (sum_nat (gray_of L q)) then n - 1 - a else a) :: gray_of L q.
Proof.
  intros Hn Ha. rewrite gray_of_cons.
  assert (E1 : (q * n + a) / n = q).
  { rewrite Nat.div_add_l by lia. rewrite Nat.div_small by lia. lia. }
  assert (E2 : (q * n + a) mod n = a).
  { rewrite Nat.add_comm, Nat.mod_add by lia. apply Nat.mod_small. lia. }
  now rewrite E1, E2.
Qed.

Lemma reflect_seq : forall n, map (fun a => n - 1 - a) (seq 0 n) = rev (seq 0 n).
Proof.
  induction n as [|n IH]; [reflexivity|].
  rewrite seq_S at 2. rewrite rev_app_distr. cbn [rev app Nat.add]. rewrite <- IH.
  cbn [seq map]. f_equal; [lia|].
  rewrite <- seq_shift, map_map. apply map_ext. intros a. lia.
Qed.

Theorem gray_bijection : forall r,
  Permutation (map (gray_of (map S r)) (seq 0 (idx_max (map S r)))) (box r).
Proof.
  induction r as [|ri r IH]; [cbn; constructor; constructor|].
  cbn [map]. rewrite idx_max_cons, Nat.mul_comm, seq_mul_aux.
  set (n := S ri). set (L := map S r) in *.
  rewrite map_flat_map.
  transitivity (flat_map (fun q => map (fun gi => gi :: gray_of L q) (seq 0 n)) (seq 0 (idx_max L))).
  - apply flat_map_perm_pointwise. intros q _. rewrite map_map.
    rewrite (map_ext_in _ (fun a => (if Nat.odd (sum_nat (gray_of L q)) then n - 1 - a else a) :: gray_of L q)).
    2:{ intros a Ha. apply in_seq in Ha. apply gray_of_cons_mul; lia. }
    destruct (Nat.odd (sum_nat (gray_of L q))).
    + rewrite <- (map_map (fun a => n - 1 - a) (fun gi => gi :: gray_of L q)).
      apply Permutation_map. rewrite reflect_seq. symmetry. apply Permutation_rev.
    + apply Permutation_refl.
  - rewrite <- (flat_map_map (fun g' => map (fun gi => gi :: g') (seq 0 n)) (gray_of L)).
    cbn [box]. apply flat_map_perm. exact IH.
Qed.

(* ------------------------------------------------------------------ vector sums *)
Section Sums.
Variable A : Type.
Variables (rO rI : A) (radd rmul rsub : A -> A -> A) (ropp : A -> A).
Hypothesis Rth : ring_theory rO rI radd rmul rsub ropp (@eq A).
Add Ring Aring2 : Rth.
Variable wb : Z.

Notation vadd' := (vadd A radd).
Notation vsum' := (vsum A rO radd).
Notation term' := (glynn_term A rO rI radd rmul ropp).

Lemma vadd_comm : forall u v, vadd' u v = vadd' v u.
Proof. induction u as [|a u IH]; intros [|b v]; cbn; try reflexivity. f_equal; [ring|apply IH]. Qed.

Lemma vadd_assoc : forall u v x, vadd' (vadd' u v) x = vadd' u (vadd' v x).
Proof.
  induction u as [|a u IH]; intros [|b v] [|c x]; cbn; try reflexivity. f_equal; [ring|apply IH].
Qed.

Lemma vadd_zero_r : forall u n, length u = n -> vadd' u (repeat rO n) = u.
Proof.
  induction u as [|a u IH]; intros n H; subst n; cbn; [reflexivity|]. f_equal; [ring|now apply IH].
Qed.

Lemma vadd_length : forall u v n, length u = n -> length v = n -> length (vadd' u v) = n.
Proof.
  induction u as [|a u IH]; intros [|b v] n Hu Hv; cbn in *; try lia. subst n.
  f_equal. apply IH; lia.
Qed.

Definition all_len (n : nat) (l : list (list A)) : Prop := Forall (fun v => length v = n) l.

Lemma vsum_length n : forall l, all_len n l -> length (vsum' n l) = n.
Proof.
  induction l as [|v l IH]; intros H; cbn.
  - apply repeat_length.
  - inversion H; subst. apply vadd_length; auto.
Qed.

Lemma fold_left_vsum n : forall l a, all_len n l -> length a = n ->
  fold_left vadd' l a = vadd' a (vsum' n l).
Proof.
  induction l as [|v l IH]; intros a H Ha; cbn [fold_left].
  - cbn. now rewrite vadd_zero_r.
  - inversion H; subst. rewrite IH; auto.
    + cbn [vsum fold_right]. now rewrite vadd_assoc.
    + apply vadd_length; auto.
Qed.

Lemma vsum_app n : forall l1 l2, all_len n l2 ->
  vsum' n (l1 ++ l2) = vadd' (vsum' n l1) (vsum' n l2).
Proof.
  induction l1 as [|v l1 IH]; intros l2 H2.
  - cbn [app]. change (vsum' n []) with (repeat rO n).
    rewrite vadd_comm, vadd_zero_r; auto. now apply vsum_length.
  - cbn [app]. change (vsum' n (v :: l1 ++ l2)) with (vadd' v (vsum' n (l1 ++ l2))).
    rewrite IH by auto. change (vsum' n (v :: l1)) with (vadd' v (vsum' n l1)).
    now rewrite vadd_assoc.
Qed.

Lemma vsum_flat_map {X} n (f : X -> list (list A)) : forall l,
  (forall x, all_len n (f x)) ->
  vsum' n (flat_map f l) = fold_right vadd' (repeat rO n) (map (fun x => vsum' n (f x)) l).
Proof.
  intros l Hf. induction l as [|x l IH]; [reflexivity|].
  cbn [flat_map map fold_right]. rewrite vsum_app, IH; auto.
  clear IH. induction l as [|y l IHl]; cbn [flat_map]; [constructor|].
  apply Forall_app. split; auto. apply Hf.
Qed.

Lemma vsum_perm n : forall l l', Permutation l l' -> vsum' n l = vsum' n l'.
Proof.
  induction 1 as [|x l l' _ IH|x y l|l l' l'' _ IH1 _ IH2].
  - reflexivity.
  - change (vadd' x (vsum' n l) = vadd' x (vsum' n l')). now rewrite IH.
  - change (vadd' y (vadd' x (vsum' n l)) = vadd' x (vadd' y (vsum' n l))).
    rewrite <- !vadd_assoc. f_equal. apply vadd_comm.
  - congruence.
Qed.

(* ---- the kernel loop computes the Glynn sum *)
Theorem run_all_is_glynn_sum w threads F nout row0 rest r :
  (forall cs, length (F cs) = nout) ->
  length r = length rest -> weight_ok wb w r -> 1 <= threads ->
  run_all A rO rI radd rmul ropp wb w threads F nout row0 rest r
  = Ok (glynn_sum A rO rI radd rmul ropp F nout row0 rest r).
Proof.
  intros HF Hlen Hw Ht.
  rewrite (run_all_spec A rO rI radd rmul rsub ropp Rth wb w threads F nout row0 rest r Hlen Hw Ht).
  f_equal.
  set (im := idx_max (map S r)). set (conc := Nat.min (threads * 4) im).
  set (T := fun k => term' F row0 rest r (gray_of (map S r) k)).
  assert (HT : forall k, length (T k) = nout).
  { intros k. unfold T, glynn_term, addend, vscale. rewrite map_length. apply HF. }
  assert (Hall : forall l, all_len nout (map T l)).
  { intros l. apply Forall_forall. intros v Hv. apply in_map_iff in Hv. destruct Hv as (k & <- & _). apply HT. }
  pose proof (idx_max_pos (map S r) (wf_map_S r)) as Him. fold im in Him.
  (* each job is the vector sum over its range *)
  assert (Hjob : forall j, job_value A rO rI radd rmul ropp F row0 rest r im conc j
                           = vsum' nout (map T (job_range im conc j))).
  { intros j. unfold job_value, job_range. destruct (job_bounds im conc j) as [a b].
    change (fold_left vadd' (map T (seq (S a) (b - a))) (T a) = vsum' nout (map T (seq a (S (b - a))))).
    rewrite (fold_left_vsum nout _ _ (Hall _) (HT _)). reflexivity. }
  rewrite (map_ext _ _ Hjob).
  rewrite <- (vsum_flat_map nout (fun j => map T (job_range im conc j))) by (intros; apply Hall).
  rewrite <- map_flat_map.
  rewrite jobs_partition by (unfold conc; lia).
  unfold glynn_sum. fold (vsum' nout).
  rewrite <- (vsum_perm nout _ _ (Permutation_map _ (gray_bijection r))).
  rewrite map_map. reflexivity.
Qed.

End Sums.
