"""C03 — Shot accounting and the chain rule of measurement."""
import itertools
import json
import math
import os
from fractions import Fraction

from common import (CASES_HEADER, VERIF, Check, cbool, clist, copt, coq_eval_parallel, cz,
                    parse_coq_list, run_impl)

IMPORTS = CASES_HEADER + ("From PV Require Import Base.CasesLib C03.ExecModel C03.ExecReplay.\n"
                          "Open Scope Z_scope.\n")
PIMPORTS = CASES_HEADER + ("From PV Require Import Base.CasesLib C03.ExecModel C03.ProjectModel C03.ProjectReplay C03.DensityModel C03.DensityReplay C03.PassiveModel C03.PassiveReplay.\n"
                           "Open Scope Z_scope.\n")
CORPUS = os.path.join(VERIF, "harness", "corpus", "c03.jsonl")

# sizes can be scaled down for development runs on a loaded machine (default 1)
SCALE = float(os.environ.get("C03_SCALE", "1"))

# does the tree under test refuse conditioned mid-circuit measurements at validation time
# (fixes/C03-conditioned-mid-circuit-measurement.diff)?  probed by the runner on every run
STRICT = {"cond_meas": False}

K_GET_COUNTS = "C03:get_counts:duplicate-outcome-branches"
K_GET_COUNTS_EMPTY = "C03:get_counts:empty-outcome-tuple"
K_PASSIVE_ORDER = "C03:passive:measurement-mode-order"
K_COND_MEAS = "C03:_do_execute_instructions:conditioned-measurement"
K_PASSIVE_SEQ = "C03:passive:mid-circuit-measurement-exact-weights"

MEAS = {"PNM", "IPNM", "THR", "HOM", "HET", "GD", "POST"}
NONE_OK = {
    "purefock": {"PNM", "POST"}, "fock": {"PNM"}, "passive": {"PNM", "POST", "IPNM"},
    "gaussian": set(), "fermionic_fock": {"PNM"}, "fermionic_gaussian": set(),
}


# =========================================================================== Coq terms
def cnat(n):
    return "%d%%nat" % int(n)


def cq(p):
    n, d = int(p[0]), int(p[1])
    return "(Qmake %s %d)" % (cz(n), d)


def cql(xs):
    return clist(xs, cq)


def ccond(c):
    if not c:
        return "CTrue"
    k = c[0]
    if k == "cmp":
        return "(CCmp %s C%s %s)" % (cz(c[1]), c[2].capitalize(), cq(c[3]))
    if k == "and":
        return "(CAnd %s %s)" % (ccond(c[1]), ccond(c[2]))
    if k == "or":
        return "(COr %s %s)" % (ccond(c[1]), ccond(c[2]))
    if k == "not":
        return "(CNot %s)" % ccond(c[1])
    raise ValueError(k)


def cpexpr(p):
    if not p:
        return "PFixed"
    return "(PLin %s %s %s)" % (cq(p["a"]), cz(p["idx"]), cq(p["b"]))


def cinstr(n, spec, sim):
    return "(mkI %s %s %s %s %s %s)" % (
        cnat(n), clist(spec.get("modes") or [], cnat), cbool(spec["k"] in MEAS),
        cbool(spec["k"] in NONE_OK[sim]), ccond(spec.get("cond")), cpexpr(spec.get("pexpr")))


def ccall(c):
    if "error" in c:
        res = "(Err (EStep %s))" % cz(c["error"])
    else:
        res = "(Ok %s)" % clist(c["subs"], lambda s: "(mkSub %s %s %s)" % (cnat(s["id"]), cql(s["outcome"]), cq(s["freq"])))
    return "(mkC %s %s %s %s %s %s)" % (
        cnat(c["state"]), cnat(max(c["instr"], 0)), clist(c["modes"], cnat), copt(c["param"], cq),
        copt(c["shots"]), res)


def cobs(o):
    if o.get("error") is not None:
        return "(mkObs (Some %s) [] [] None [])" % cz(o["error"])
    brs = clist(o["branches"], lambda b: "(%s, %s, %s, %s)" % (cnat(b["id"]), cql(b["outcome"]), cq(b["freq"]), copt(b["d"], cnat)))
    samples = clist(o.get("samples_pre") or [], cql)
    counts = "None" if o.get("counts") is None else "(Some %s)" % clist(o["counts"], lambda kv: "(%s, %s)" % (cql(kv[0]), cz(kv[1])))
    omap = clist(o.get("outcome_map") or [], lambda kv: "(%s, %s)" % (cql(kv[0]), cq(kv[1])))
    return "(mkObs None %s %s %s %s)" % (brs, samples, counts, omap)


def ccase(case, o):
    return "(%s, %s, %s, %s, %s)" % (
        clist(o["calls"], ccall), clist(list(enumerate(case["instrs"])), lambda t: cinstr(t[0], t[1], case["sim"])),
        copt(case["shots"]), cnat(case["d"]), cobs(o))


EXEC_BODY = """
Definition cases : list (list call * list instr * option Z * nat * observed) := %s.
Eval vm_compute in map (fun '(tbl, prog, shots, d, obs) => compare_case %s tbl prog shots d obs) cases.
Eval vm_compute in mismatches (fun '(tbl, prog, shots, d, obs) => wf_table tbl) cases.
"""


# =========================================================================== generators
def dy(rng, lo=-8, hi=8, den=8):
    return [rng.randint(lo, hi), den]


def simplify(p):
    f = Fraction(p[0], p[1])
    return [f.numerator, f.denominator]


def gen_cond(rng, nout, floats=False, depth=0):
    """condition over the outcome tuple; nout = number of outcome entries seen so far on the
    path where everything executed (None: unknown, use 0/-1)"""
    r = rng.random()
    if depth < 2 and r < 0.25:
        return [rng.choice(["and", "or"]), gen_cond(rng, nout, floats, depth + 1), gen_cond(rng, nout, floats, depth + 1)]
    if depth < 2 and r < 0.33:
        return ["not", gen_cond(rng, nout, floats, depth + 1)]
    if nout is None:
        idx = rng.choice([0, -1])
    else:
        idx = rng.randint(-nout, nout - 1)
        if rng.random() < 0.04:
            idx = nout + rng.randint(0, 1)  # out of range: the condition raises if reached
    if floats:
        val = simplify([rng.randint(-4, 4), 4])
    else:
        val = [rng.randint(0, 2), 1] if rng.random() < 0.85 else [rng.choice([1, 3]), 2]
    return ["cmp", idx, rng.choice(["lt", "le", "gt", "ge", "eq", "ne"]), val]


def gen_pexpr(rng, nout):
    idx = rng.randint(-nout, nout - 1)
    if rng.random() < 0.04:
        idx = nout
    return {"a": simplify(dy(rng, -6, 6)), "idx": idx, "b": simplify(dy(rng, -6, 6))}


STOCH = {  # detector efficiency matrices (columns = actual count, rows = detected), dyadic
    3: [[1.0, 0.25, 0.0625], [0.0, 0.75, 0.375], [0.0, 0.0, 0.5625]],
    4: [[1.0, 0.25, 0.0625, 0.015625], [0.0, 0.75, 0.375, 0.140625],
        [0.0, 0.0, 0.5625, 0.421875], [0.0, 0.0, 0.0, 0.421875]],
}


def gen_case(rng, sim, tier_thorough):
    """one adaptive program for simulator `sim`"""
    fermi = sim.startswith("fermionic")
    d = rng.randint(2, 4 if sim != "fock" else 3)
    instrs = []
    floats = sim == "gaussian"
    total = 0
    if sim in ("purefock", "fermionic_fock", "fock"):
        nprep = rng.choice([1, 1, 2])
        coefs = [(1.0, 0.0)] if nprep == 1 else [(0.6, 0.0), (0.0, 0.8)]
        seen = set()
        for re, im in coefs:
            while True:
                n = [0] * d
                k = rng.randint(1, 2 if fermi else 3)
                if fermi:
                    for m in rng.sample(range(d), min(k, d)):
                        n[m] = 1
                else:
                    for _ in range(k):
                        n[rng.randrange(d)] += 1
                if tuple(n) not in seen:
                    seen.add(tuple(n))
                    break
            total = max(total, sum(n))
            if sim == "fock":
                instrs.append({"k": "DM", "modes": [], "args": {"ket": n, "bra": n, "re": re * re + im * im, "im": 0.0}})
            else:
                instrs.append({"k": "NS", "modes": [], "args": {"n": n, "re": re, "im": im}})
    elif sim in ("passive", "fermionic_gaussian"):
        n = [0] * d
        if fermi:
            for m in rng.sample(range(d), rng.randint(1, d)):
                n[m] = 1
        else:
            for _ in range(rng.randint(1, 3)):
                n[rng.randrange(d)] += 1
        total = sum(n)
        instrs.append({"k": "NS", "modes": [], "args": {"n": n}})
    else:  # gaussian
        instrs.append({"k": "VAC", "modes": []})
    cutoff = None
    if sim in ("purefock", "fock", "passive"):
        cutoff = total + 3
    elif sim == "fermionic_fock":
        cutoff = d + 1
    mid_ok = {"purefock": ["PNM", "PNM", "PNM", "POST"], "passive": ["PNM", "PNM", "IPNM", "POST"],
              "gaussian": ["HOM", "HET", "GD"], "fermionic_fock": ["PNM"], "fock": [],
              "fermionic_gaussian": []}[sim]
    final = {"purefock": ["PNM"], "passive": ["PNM", "IPNM"], "gaussian": ["PNM", "PNM", "THR", "HOM"],
             "fermionic_fock": ["PNM"], "fock": ["PNM"], "fermionic_gaussian": ["PNM"]}[sim]
    gates = {"purefock": ["BS", "BS", "PS", "KERR", "BS50"], "passive": ["BS", "BS", "PS", "BS50"],
             "gaussian": ["SQ", "BS", "D", "PS", "SQ"], "fermionic_fock": ["BS", "PS", "BS"],
             "fock": ["BS", "PS", "BS"], "fermionic_gaussian": ["BS", "PS", "BS"]}[sim]
    active = list(range(d))
    nout = 0
    nmeas_target = rng.choice([1, 2, 2, 3]) if mid_ok else 1
    nmeas = 0
    length = rng.randint(3, 9)
    lossy = False
    for step in range(length):
        if not active:
            break
        last = step == length - 1
        want_meas = last or (mid_ok and nmeas < nmeas_target - 1 and rng.random() < 0.3)
        spec = None
        if want_meas:
            kind = rng.choice(final if last else mid_ok)
            if sim == "gaussian" and kind in ("HOM", "HET", "GD") and not last:
                ms = [rng.choice(active)]
            elif last and rng.random() < 0.6:
                ms = list(active)
            else:
                ms = rng.sample(active, rng.randint(1, len(active)))
            if rng.random() < 0.5:
                ms.sort()
            spec = {"k": kind, "modes": ms, "args": {}}
            if kind == "IPNM":
                spec["args"]["matrix"] = STOCH[4]
            if kind == "GD":
                spec["args"]["cov"] = [[0.5, 0.0], [0.0, 2.0]]
                if len(ms) != 1:
                    ms[:] = ms[:1]
            if kind == "HOM":
                spec["args"]["phi"] = rng.choice([0.0, 0.5])
            if kind == "POST":
                spec["args"]["counts"] = [rng.choice([0, 0, 1]) for _ in ms]
            if nout > 0 and rng.random() < 0.12:
                spec["cond"] = gen_cond(rng, None if floats else nout, floats)
            nmeas += 1
        else:
            kind = rng.choice(gates)
            if kind in ("BS", "BS50") and len(active) < 2:
                kind = "PS"
            if kind in ("BS", "BS50"):
                ms = rng.sample(active, 2)
                spec = {"k": kind, "modes": ms, "args": {"theta": 2 * math.atan(rng.choice([0.5, 1 / 3, 2.0, 0.25])),
                                                          "phi": rng.choice([0.0, 0.5, 1.25])}}
            elif kind == "PS":
                spec = {"k": "PS", "modes": [rng.choice(active)], "args": {"phi": rng.choice([0.25, 0.5, 1.5])}}
            elif kind == "KERR":
                spec = {"k": "KERR", "modes": [rng.choice(active)], "args": {"xi": rng.choice([0.25, 0.5])}}
            elif kind == "SQ":
                spec = {"k": "SQ", "modes": [rng.choice(active)], "args": {"r": rng.choice([0.25, 0.5, 0.75]), "phi": rng.choice([0.0, 0.5])}}
            elif kind == "D":
                spec = {"k": "D", "modes": [rng.choice(active)], "args": {"r": rng.choice([0.25, 0.5, 1.0]), "phi": rng.choice([0.0, 1.0])}}
            if nout > 0 and rng.random() < 0.45:
                spec["cond"] = gen_cond(rng, None if floats else nout, floats)
            if nout > 0 and not floats and kind in ("PS", "BS", "KERR") and rng.random() < 0.3:
                spec["pexpr"] = gen_pexpr(rng, nout)
                spec["pform"] = rng.choice(["str", "lambda"])
        if spec.get("cond"):
            spec["cform"] = rng.choice(["str", "lambda"])
        if rng.random() < 0.03 and len(active) < d:   # malformed: addresses a measured mode
            dead = [m for m in range(d) if m not in active]
            spec["modes"] = [rng.choice(dead)] + spec["modes"][1:]
        instrs.append(spec)
        if spec["k"] in MEAS:
            active = [m for m in active if m not in spec["modes"]]
            if spec["k"] != "POST":
                nout += len(spec["modes"]) * (2 if spec["k"] in ("HET", "GD", "HOM") else 1)
    nbr = sum(1 for s in instrs if s["k"] in ("HOM", "HET", "GD") )
    if sim == "gaussian":
        slow = instrs[-1]["k"] in ("PNM", "THR")     # ~1 s per shot and mode in this sandbox
        if slow:
            instrs[-1]["modes"] = instrs[-1]["modes"][:2]
        shots = rng.choice([1, 2, 3, 4] if slow else ([1, 2, 3, 5, 7] if nbr else [1, 2, 3, 7, 10, 20, 100]))
        if rng.random() < 0.04:
            shots = None
    elif sim in ("fermionic_gaussian",):
        shots = rng.choice([1, 2, 3, 7, 10, 100])
    else:
        shots = rng.choice([1, 2, 3, 7, 10, 100, None, None])
    return {"sim": sim, "d": d, "cutoff": cutoff, "seed": rng.randint(0, 2 ** 31), "shots": shots, "instrs": instrs}


def nontrivial(case, o):
    if o.get("error") is not None or "branches" not in o:
        return False
    nm = sum(1 for s in case["instrs"] if s["k"] in MEAS)
    nc = sum(1 for s in case["instrs"] if s.get("cond"))
    return (nm >= 2 or nc >= 1) and len(o["branches"]) >= 2


def structure_key(case):
    return json.dumps([case["sim"], case["d"], case["shots"], [(s["k"], s.get("modes"), s.get("cond"), s.get("pexpr")) for s in case["instrs"]]], sort_keys=True)


# =========================================================================== direct search
def fr(p):
    return Fraction(p[0], p[1])


def search_case(chk, case, o, stats):
    """the accounting part of the property, stated on the implementation's output alone"""
    sim = case["sim"]
    N = case["shots"]
    # every recorded oracle answer is well-formed (hypothesis wf_step of the theorems)
    for c in o["calls"]:
        if c["shots"] is None or "subs" not in c:
            continue
        k = c["shots"]
        bad = None
        if c["shots_type"] != "int":
            bad = "step called with shots of type %s" % c["shots_type"]
        elif k < 1:
            bad = "step called with shots=%d" % k
        else:
            cs = [fr(s["freq"]) * k for s in c["subs"]]
            if any(s["freq_type"] not in ("Fraction", "int") for s in c["subs"]):
                bad = "step returned a frequency that is not a Fraction: %s" % sorted({s["freq_type"] for s in c["subs"]})
            elif any(x.denominator != 1 or x < 1 for x in cs) or sum(cs) != k:
                bad = "step returned frequencies %s for shots=%d" % ([str(fr(s["freq"])) for s in c["subs"]][:8], k)
        if bad:
            kind = case["instrs"][c["instr"]]["k"] if c["instr"] >= 0 else "?"
            chk.violation("C03:%s:%s:step-not-well-formed" % (sim, kind), bad, {"case": case, "call": c})
    if o.get("error") is not None or "branches" not in o:
        return
    stats["ok_runs"] += 1
    if not o.get("modes_restored", True):
        stats["modes_not_restored"] += 1
    brs = o["branches"]
    if N is None:
        if o.get("samples_none_raises") is False:
            chk.violation("C03:Result.samples:shots-none", "Result.samples did not raise with shots=None", {"case": case})
        return
    fs = [fr(b["freq"]) for b in brs]
    if any(b["freq_type"] != "Fraction" for b in brs):
        chk.violation("C03:%s:branch-frequency-not-fraction" % sim, "branch frequency types %s with shots=%d" % (sorted({b["freq_type"] for b in brs}), N), {"case": case})
    ks = [f * N for f in fs]
    if any(k.denominator != 1 or k < 1 for k in ks):
        chk.violation("C03:%s:branch-frequency-not-k/N" % sim, "branch frequencies %s are not k/%d with k>=1" % ([str(f) for f in fs][:10], N), {"case": case})
    if sum(fs) != 1:
        chk.violation("C03:%s:branch-frequencies-sum" % sim, "branch frequencies sum to %s" % sum(fs), {"case": case})
    if o["n_samples"] != N:
        chk.violation("C03:%s:samples-length" % sim, "len(samples) = %d with shots=%d" % (o["n_samples"], N), {"case": case})
    # samples are the branch outcomes with multiplicity k
    exp = {}
    for b, k in zip(brs, ks):
        key = json.dumps(b["outcome"])
        exp[key] = exp.get(key, 0) + k
    got = {}
    for s in o["samples_pre"]:
        key = json.dumps(s)
        got[key] = got.get(key, 0) + 1
    if exp != got:
        chk.violation("C03:%s:samples-multiset" % sim, "samples are not the branch outcomes with multiplicity k", {"case": case})
    if o.get("counts") is not None:
        stats["counts_runs"] += 1
        tot = sum(c for _, c in o["counts"])
        cm = {json.dumps(k): c for k, c in o["counts"]}
        dup = len(exp) < len(brs)
        if dup:
            stats["dup_outcome_runs"] += 1
        if tot != N or cm != got:
            if dup:
                chk.violation(K_GET_COUNTS,
                              "Result.get_counts() sums to %d with shots=%d: branches with equal outcomes overwrite each other (simulator %s)" % (tot, N, sim),
                              {"case": case, "counts_sum": tot, "shots": N, "branches": len(brs), "distinct_outcomes": len(exp)})
            else:
                chk.violation("C03:%s:get_counts" % sim, "Result.get_counts() sums to %d with shots=%d" % (tot, N), {"case": case})
    elif o.get("counts_error"):
        if any(len(b["outcome"]) == 0 for b in brs) and "IndexError" in o["counts_error"]:
            chk.violation(K_GET_COUNTS_EMPTY, "Result.get_counts() raises %s when the first sample is the empty tuple (no outcome-producing measurement was executed); expected {(): %d}" % (o["counts_error"], N), {"case": case})
        else:
            chk.violation("C03:%s:get_counts-raises" % sim, o["counts_error"], {"case": case})
    om = o.get("outcome_map") or []
    if len(om) < len(brs):
        stats["outcome_map_lossy"] += 1



# =========================================================================== deterministic programs
def py_cond(c, x):
    """Python meaning of the condition language (same as the strings handed to piquasso)"""
    k = c[0]
    if k == "cmp":
        a = x[c[1]]
        v = Fraction(c[3][0], c[3][1])
        return {"lt": a < v, "le": a <= v, "gt": a > v, "ge": a >= v, "eq": a == v, "ne": a != v}[c[2]]
    if k == "and":
        return py_cond(c[1], x) and py_cond(c[2], x)
    if k == "or":
        return py_cond(c[1], x) or py_cond(c[2], x)
    return not py_cond(c[1], x)


WITNESS_COND_MEAS = {
    "sim": "purefock", "d": 3, "cutoff": 4, "seed": 0, "shots": 5, "det": True,
    "instrs": [{"k": "NS", "modes": [], "args": {"n": [0, 1, 0]}},
               {"k": "PNM", "modes": [0], "args": {}},
               {"k": "PNM", "modes": [1], "args": {}, "cond": ["cmp", 0, "gt", [0, 1]], "cform": "str"},
               {"k": "PNM", "modes": [2], "args": {}}],
    "expected": [0, 0], "skipped_measurement": True,
}


def gen_det(rng):
    """number state, no mixing gates: every measurement outcome is determined, so the sample is
    known without any model: the occupation numbers of the measured modes, for the
    measurements whose condition holds"""
    sim = rng.choice(["purefock", "purefock", "passive", "fermionic_fock"])
    d = rng.randint(2, 5)
    n = [rng.choice([0, 1]) if sim == "fermionic_fock" else rng.choice([0, 0, 1, 2]) for _ in range(d)]
    if sum(n) == 0:
        n[rng.randrange(d)] = 1
    instrs = [{"k": "NS", "modes": [], "args": {"n": n}}]
    free = list(range(d))
    x = []
    skipped = False
    for _ in range(rng.randint(2, 6)):
        if not free:
            break
        if rng.random() < 0.35:
            spec = {"k": "PS", "modes": [rng.choice(free)], "args": {"phi": 0.5}}
        else:
            ms = rng.sample(free, rng.randint(1, min(2, len(free))))
            spec = {"k": "PNM", "modes": ms, "args": {}}
        if x and rng.random() < 0.4:
            spec["cond"] = gen_cond(rng, len(x))
            while spec["cond"][0] == "cmp" and not (-len(x) <= spec["cond"][1] < len(x)):
                spec["cond"] = gen_cond(rng, len(x))
            spec["cform"] = rng.choice(["str", "lambda"])
        ok = True
        if spec.get("cond"):
            try:
                ok = bool(py_cond(spec["cond"], x))
            except IndexError:
                continue
        if spec["k"] == "PNM":
            free = [m for m in free if m not in spec["modes"]]
            if ok:
                x = x + [n[m] for m in spec["modes"]]
            else:
                skipped = True
        instrs.append(spec)
    return {"sim": sim, "d": d, "cutoff": (sum(n) + 3) if sim != "fermionic_fock" else d + 1, "seed": rng.randint(0, 2 ** 31),
            "shots": rng.choice([1, 3, 10, None]), "instrs": instrs, "det": True, "expected": x, "skipped_measurement": skipped}


def cond_meas_mid(case):
    ins = case["instrs"]
    return any(s["k"] in MEAS and s.get("cond") for s in ins[:-1])


def search_det(chk, case, o, stats):
    stats["det_runs"] += 1
    if STRICT["cond_meas"] and cond_meas_mid(case):
        # the repaired tree refuses such a program before any evolution
        if o.get("error") != 4:
            chk.violation("C03:%s:conditioned-mid-circuit-measurement-not-refused" % case["sim"],
                          "a conditioned measurement that is not the last instruction was not refused with InvalidSimulation: " + str(o.get("error_text")), {"case": case})
        return
    exp = [[v, 1] for v in case["expected"]]
    got = None
    if o.get("error") is None and "branches" in o:
        # with shots=None the passive simulator also lists the outcomes of probability zero
        got = [(b["outcome"], fr(b["freq"])) for b in o["branches"] if not (case["shots"] is None and fr(b["freq"]) == 0)]
    if got is not None and len(got) == 1 and got[0][0] == exp and (
            got[0][1] == 1 or (case["shots"] is None and abs(float(got[0][1]) - 1) < 1e-9)):
        return
    what = "number state %s: expected the single sample %s, got %s" % (
        case["instrs"][0]["args"]["n"], tuple(case["expected"]),
        o.get("error_text") if got is None else [(tuple(int(fr(v)) for v in oc), str(f)) for oc, f in got][:4])
    full_unsorted = [s for s in case["instrs"] if s["k"] == "PNM" and len(s["modes"]) > 1 and s["modes"] != sorted(s["modes"])]
    npnm = sum(1 for s in case["instrs"] if s["k"] == "PNM")
    if case["sim"] == "passive" and case["shots"] is None and npnm >= 2 and not case.get("skipped_measurement"):
        # same root cause as the sequential-vs-joint failures: after a mid-circuit measurement
        # the lazily post-selected PassiveState is handed register positions where it expects
        # its own mode labels (spurious "postselected modes" exception or the marginal of the
        # wrong modes) and returns joint instead of conditional probabilities
        chk.violation(K_PASSIVE_SEQ, "PassiveSimulator, shots=None, measurement after a mid-circuit measurement: " + what, {"case": case})
    elif case["sim"] == "passive" and full_unsorted and not case.get("skipped_measurement"):
        chk.violation(K_PASSIVE_ORDER, "PassiveSimulator: a particle-number measurement on modes given in non-ascending order returns the sample in ascending mode order when no mode is left over (the other simulators, and the passive simulator's own marginal path, follow the given order): " + what,
                      {"case": case})
    elif case.get("skipped_measurement"):
        stats["cond_meas_failures"] += 1
        chk.violation(K_COND_MEAS, "a measurement skipped by its condition still removes its modes from the executor's active-mode tuple; later instructions act on the wrong modes of that branch: " + what,
                      {"case": {k: v for k, v in case.items()}})
    else:
        chk.violation("C03:%s:deterministic-outcome" % case["sim"], what, {"case": case})


# =========================================================================== projective model
AMPS = {1: [[(1, 1)]], 2: [[(3, 5), (4, 5)], [(5, 13), (12, 13)]], 3: [[(1, 3), (2, 3), (2, 3)], [(2, 7), (3, 7), (6, 7)]],
        4: [[(1, 2)] * 4, [(1, 5), (2, 5), (2, 5), (4, 5)]], 5: [[(2, 5)] * 4 + [(3, 5)]]}
PHASES = [((1, 1), (0, 1)), ((0, 1), (1, 1)), ((-1, 1), (0, 1)), ((3, 5), (4, 5)), ((5, 13), (-12, 13)), ((1, 1), (0, 1))]


def gen_proj(rng):
    sim = rng.choice(["purefock", "purefock", "fermionic_fock"])
    d = rng.randint(2, 4)
    k = rng.randint(1, 5)
    vecs = set()
    tries = 0
    while len(vecs) < k and tries < 200:
        tries += 1
        if sim == "fermionic_fock":
            v = tuple(rng.choice([0, 1]) for _ in range(d))
        else:
            v = [0] * d
            for _ in range(rng.randint(0, 3)):
                v[rng.randrange(d)] += 1
            v = tuple(v)
        vecs.add(v)
    vecs = sorted(vecs)
    rng.shuffle(vecs)
    k = len(vecs)
    mags = rng.choice(AMPS[k])
    psi = []
    for v, (mn, md) in zip(vecs, mags):
        (cn, cd), (sn, sd) = rng.choice(PHASES)
        re = Fraction(mn * cn, md * cd)
        im = Fraction(mn * sn, md * sd)
        psi.append({"v": list(v), "re": [re.numerator, re.denominator], "im": [im.numerator, im.denominator]})
    # unnormalised pre-measurement states: a common rational factor on the amplitudes ...
    if rng.random() < 0.5:
        fac = Fraction(*rng.choice([(1, 2), (3, 4), (2, 3), (5, 4), (1, 3)]))
        for p in psi:
            for key in ("re", "im"):
                f = Fraction(*p[key]) * fac
                p[key] = [f.numerator, f.denominator]
    total = max(sum(p["v"]) for p in psi)
    cutoff = total + 1 + rng.randint(0, 2) if sim == "purefock" else d + 1
    # ... and a PostSelectPhotons before the measurements (keeps the unnormalised projection)
    post = None
    free = list(range(d))
    if sim == "purefock" and d >= 2 and rng.random() < 0.4:
        pm = rng.sample(range(d), rng.randint(1, d - 1))
        src = rng.choice(psi)["v"]
        counts = [src[m] for m in pm] if rng.random() < 0.85 else [rng.choice([0, 1]) for _ in pm]
        post = [pm, counts]
        free = [m for m in range(d) if m not in pm]
    modes = rng.sample(free, rng.randint(1, len(free)))
    nparts = rng.randint(1, min(3, len(modes)))
    cuts = sorted(rng.sample(range(1, len(modes)), nparts - 1)) if nparts > 1 else []
    parts = [modes[a:b] for a, b in zip([0] + cuts, cuts + [len(modes)])]
    prep = [{"k": "NS", "modes": [], "args": {"n": p["v"], "re": float(Fraction(*p["re"])), "im": float(Fraction(*p["im"]))}} for p in psi]
    pre = prep + ([{"k": "POST", "modes": post[0], "args": {"counts": post[1]}}] if post else [])
    psteps = [["P", post[0], post[1]]] if post else []
    seq = pre + [{"k": "PNM", "modes": part, "args": {}} for part in parts]
    joint = pre + [{"k": "PNM", "modes": modes, "args": {}}]
    return {"sim": sim, "d": d, "cutoff": cutoff, "psi": psi, "parts": parts, "post": post,
            "steps_seq": psteps + [["M", part] for part in parts], "steps_joint": psteps + [["M", modes]],
            "norm2": float(sum(Fraction(*p["re"]) ** 2 + Fraction(*p["im"]) ** 2 for p in psi)),
            "seq": {"sim": sim, "d": d, "cutoff": cutoff, "instrs": seq, "shots": None},
            "joint": {"sim": sim, "d": d, "cutoff": cutoff, "instrs": joint, "shots": None}}


def cpsteps(steps):
    return clist(steps, lambda s: "(PMeasure %s)" % clist(s[1], cnat) if s[0] == "M"
                 else "(PPost %s %s)" % (clist(s[1], cnat), clist(s[2], cnat)))


def cpsi(psi):
    return clist(psi, lambda p: "(%s, (%s, %s))" % (clist(p["v"], cnat), cq(p["re"]), cq(p["im"])))


def cobranches(brs):
    def one(b):
        ent = "[]" if b["state"] is None else clist(b["state"]["entries"], lambda e: "(%s, (%s, %s))" % (clist(e[0], cnat), cq(e[1]), cq(e[2])))
        return "(%s, %s, %s, %s)" % (clist(b["outcome"], cnat), cq(b["freq"]), copt(b["d"], cnat), ent)
    return clist(brs, one)


PROJ_BODY = """
Definition cases : list (nat * qstate * list pstep * list obranch) := %s.
Eval vm_compute in mismatches (fun '(d, psi, sts, obs) => proj_case_ok d psi sts obs) cases.
Definition sj : list (nat * qstate * list nat * list nat) := %s.
Eval vm_compute in mismatches (fun '(d, psi, L1, L2) => seq_joint_model_ok d psi L1 L2) sj.
"""


def proj_requests(gens):
    req = []
    for g in gens:
        req += [g["seq"], g["joint"]]
    return req


def run_proj_stream(chk, gens, out, corr_broken):
    items, sj, owners = [], [], []
    nerr = 0
    for i, g in enumerate(gens):
        for variant, o in (("seq", out[2 * i]), ("joint", out[2 * i + 1])):
            if "error" in o:
                nerr += 1
                chk.violation("C03:%s:projective-run-raises" % g["sim"], "exact (shots=None) measurement raised: " + o["error"],
                              {"case": g[variant]})
                continue
            items.append("(%s, %s, %s, %s)" % (cnat(g["d"]), cpsi(g["psi"]), cpsteps(g["steps_" + variant]), cobranches(o["branches"])))
            owners.append((g, variant, o))
            # cutoff bookkeeping of project_to_subspace, directly on the implementation
            for b in o["branches"]:
                if b["d"] is not None and g["sim"] == "purefock" and b["cutoff"] != g["cutoff"] - sum(b["outcome"]):
                    chk.violation("C03:purefock:branch-cutoff", "branch state cutoff %s != cutoff - sum(outcome)" % b["cutoff"], {"case": g[variant]})
        if len(g["parts"]) >= 2:
            sj.append("(%s, %s, %s, %s)" % (cnat(g["d"]), cpsi(g["psi"]), clist(g["parts"][0], cnat), clist(g["parts"][1], cnat)))
    bodies = []
    chunk = 60
    for i in range(0, len(items), chunk):
        bodies.append(PIMPORTS + PROJ_BODY % ("[" + ";\n".join(items[i:i + chunk]) + "]",
                                             "[" + ";\n".join(sj if i == 0 else []) + "]"))
    res = coq_eval_parallel("c03_proj", bodies, jobs=4)
    for j, o in enumerate(res):
        g2 = parse_coq_list(o)
        for k in g2[0]:
            g, variant, ob = owners[j * chunk + k]
            chk.violation("C03:%s:exact-branches-vs-projective-model" % g["sim"],
                          "shots=None: weights / branch states differ from the exact projective model (state of squared norm %.12g%s, measurements %s): implementation weights %s sum to %.12g" % (
                              g["norm2"], ", PostSelectPhotons %s first" % (g["post"],) if g["post"] else "", g["parts"] if variant == "seq" else [sum(g["parts"], [])],
                              [(tuple(b["outcome"]), round(float(fr(b["freq"])), 9)) for b in ob["branches"]][:6], sum(float(fr(b["freq"])) for b in ob["branches"])),
                          {"case": g, "variant": variant}, source="correspondence")
            corr_broken.append("projective model != %s (%s measurement of %s on state %s): branches %s" % (
                g["sim"], variant, g["parts"], [(p["v"], p["re"], p["im"]) for p in g["psi"]],
                [(b["outcome"], float(fr(b["freq"]))) for b in ob["branches"]][:6]))
        for k in g2[1]:
            corr_broken.append("model: sequential != joint (evaluation of the model itself)")
    # the chain rule stated on the implementation alone: same outcome->weight map
    nsj = 0
    for i, g in enumerate(gens):
        a, b = out[2 * i], out[2 * i + 1]
        if "error" in a or "error" in b:
            continue
        nsj += 1
        ma = {tuple(x["outcome"]): float(fr(x["freq"])) for x in a["branches"]}
        mb = {tuple(x["outcome"]): float(fr(x["freq"])) for x in b["branches"]}
        if set(ma) != set(mb) or any(abs(ma[k] - mb[k]) > 1e-9 for k in ma):
            chk.violation("C03:%s:sequential-vs-joint" % g["sim"], "measuring %s one after another gives %s, together %s" % (g["parts"], ma, mb), {"case": g})
        if g["post"] is None and abs(sum(mb.values()) - g["norm2"]) > 1e-9 * (1 + g["norm2"]):
            chk.violation("C03:%s:exact-weights-sum" % g["sim"], "shots=None: the branch weights sum to %r, the squared norm of the measured state is %r" % (sum(mb.values()), g["norm2"]), {"case": g["joint"]})
        if g["post"] is None and abs(sum(ma.values()) - g["norm2"]) > 1e-9 * (1 + g["norm2"]):
            chk.violation("C03:%s:exact-weights-sum" % g["sim"], "shots=None: the branch weights of the sequential measurement sum to %r, the squared norm of the measured state is %r" % (sum(ma.values()), g["norm2"]), {"case": g["seq"]})
    distinct = len({json.dumps([g["sim"], g["d"], g["psi"], g["parts"]]) for g in gens if len(g["psi"]) >= 2})
    ex = next((g for g in gens if len(g["parts"]) >= 2 and len(g["psi"]) >= 3), gens[0])
    chk.stream("projective model (exact Gaussian-rational amplitudes) vs PureFockSimulator / fermionic PureFockSimulator with shots=None: "
               "outcomes, weights, register size, every amplitude of every branch state, sequential and joint",
               len(items), distinct, samples=[{"sim": ex["sim"], "psi": [(p["v"], "%s/%s" % tuple(p["re"]), "%s/%s" % tuple(p["im"])) for p in ex["psi"]], "measurements": ex["parts"]}],
               note="%d two-step splits also evaluated inside the model (sequential = joint)" % len(sj))
    chk.stream("chain rule on the implementation: sequential vs joint outcome-weight maps, weights sum to 1 (search)", nsj, distinct, kind="search")


WITNESS_PASSIVE_SEQ = {
    "sim": "passive", "d": 2, "cutoff": 3,
    "prefix": [{"k": "NS", "modes": [], "args": {"n": [2, 0]}},
               {"k": "BS", "modes": [0, 1], "args": {"theta": 2 * math.atan(0.25), "phi": 0.5}}],
    "joint": [{"k": "PNM", "modes": [0, 1], "args": {}}],
    "seq": [{"k": "PNM", "modes": [0], "args": {}}, {"k": "PNM", "modes": [1], "args": {}}],
    "parts": [[0], [1]],
}


def gen_seqjoint(chk, n):
    """circuits with real gates (irrational amplitudes): the chain rule on the implementation
    itself -- the joint measurement of M and the measurements of the parts of M one after the
    other must give the same outcome->weight map (floats of the same run, tolerance 1e-9)"""
    rng = chk.rng
    reqs = [dict(WITNESS_PASSIVE_SEQ)]
    for _ in range(n):
        sim = rng.choice(["purefock", "passive", "passive", "fermionic_fock"])
        d = rng.randint(2, 4)
        nvec = [0] * d
        if sim == "fermionic_fock":
            for m in rng.sample(range(d), rng.randint(1, min(2, d))):
                nvec[m] = 1
        else:
            for _ in range(rng.randint(1, 3)):
                nvec[rng.randrange(d)] += 1
        prefix = [{"k": "NS", "modes": [], "args": {"n": nvec}}]
        for _ in range(rng.randint(1, 5)):
            if rng.random() < 0.7:
                a = rng.randrange(d - 1) if sim == "fermionic_fock" else None
                ms = [a, a + 1] if a is not None else rng.sample(range(d), 2)
                prefix.append({"k": "BS", "modes": ms, "args": {"theta": 2 * math.atan(rng.choice([0.5, 1 / 3, 2.0, 0.25, 1.0])), "phi": rng.choice([0.0, 0.5, 1.25])}})
            else:
                prefix.append({"k": "PS", "modes": [rng.randrange(d)], "args": {"phi": rng.choice([0.25, 0.5, 1.5])}})
        modes = rng.sample(range(d), rng.randint(2, d))
        nparts = rng.randint(2, min(3, len(modes)))
        cuts = sorted(rng.sample(range(1, len(modes)), nparts - 1))
        parts = [modes[a:b] for a, b in zip([0] + cuts, cuts + [len(modes)])]
        reqs.append({"sim": sim, "d": d, "cutoff": max(3, sum(nvec) + 1) if sim != "fermionic_fock" else d + 1, "prefix": prefix,
                     "joint": [{"k": "PNM", "modes": modes, "args": {}}],
                     "seq": [{"k": "PNM", "modes": part, "args": {}} for part in parts], "parts": parts})
    return reqs


def run_seqjoint_stream(chk, reqs, out):
    nok = 0
    for r, o in zip(reqs, out):
        if "error" in o:
            if r["sim"] == "passive":
                chk.violation(K_PASSIVE_SEQ, "PassiveSimulator, shots=None: a partial measurement after a mid-circuit measurement raises (%s)" % o["error"][:160], {"case": r})
            else:
                chk.violation("C03:%s:sequential-measurement-raises" % r["sim"], o["error"], {"case": r})
            continue
        nok += 1
        mj = {tuple(k): v for k, v in o["joint"]}
        ms = {tuple(k): v for k, v in o["seq"]}
        keys = {k for k, v in mj.items() if v > 1e-12} | {k for k, v in ms.items() if v > 1e-12}
        if any(abs(mj.get(k, 0.0) - ms.get(k, 0.0)) > 1e-9 for k in keys):
            chk.violation(K_PASSIVE_SEQ if r["sim"] == "passive" else "C03:%s:sequential-vs-joint" % r["sim"],
                          "shots=None: measuring %s one after another gives weights %s (sum %.6f), together %s (sum %.6f)" % (
                              r["parts"], [(k, round(v, 6)) for k, v in sorted(ms.items()) if v > 1e-12][:5], sum(ms.values()),
                              [(k, round(v, 6)) for k, v in sorted(mj.items()) if v > 1e-12][:5], sum(mj.values())), {"case": r})
        elif abs(sum(mj.values()) - 1) > 1e-9 or abs(sum(ms.values()) - 1) > 1e-9:
            chk.violation("C03:%s:exact-weights-sum" % r["sim"], "exact weights sum to %r (joint) / %r (sequential)" % (sum(mj.values()), sum(ms.values())), {"case": r})
    chk.stream("chain rule on circuits with gates, implementation only: every split of the measured modes, sequential vs joint (search)",
               nok, len({json.dumps([r["sim"], r["prefix"], r["parts"]]) for r in reqs}), kind="search",
               samples=[{"sim": reqs[0]["sim"], "parts": reqs[0]["parts"]}])



# =========================================================================== density-matrix model
def gen_dens(rng):
    """a mixture of rational-amplitude pure states (trace not always 1) for FockSimulator, one
    measurement (the simulator has no mid-circuit measurement), plus a split for the
    model-internal sequential = joint evaluation"""
    d = rng.randint(2, 3)
    comps = []
    for _ in range(rng.randint(1, 3)):
        k = rng.randint(1, 2)
        vs = set()
        while len(vs) < k:
            v = [0] * d
            for _ in range(rng.randint(0, 2)):
                v[rng.randrange(d)] += 1
            vs.add(tuple(v))
        mags = rng.choice(AMPS[k])
        amps = []
        for v, (mn, md) in zip(sorted(vs), mags):
            (cn, cd), (sn, sd) = rng.choice(PHASES)
            amps.append((v, Fraction(mn * cn, md * cd), Fraction(mn * sn, md * sd)))
        comps.append((Fraction(*rng.choice([(1, 2), (1, 4), (1, 3), (3, 4), (1, 1)])), amps))
    ent = {}
    for q, amps in comps:
        for (k, kr, ki) in amps:
            for (b, br, bi) in amps:     # q * a_k * conj(a_b)
                re = q * (kr * br + ki * bi)
                im = q * (ki * br - kr * bi)
                e = ent.get((k, b), (Fraction(0), Fraction(0)))
                ent[(k, b)] = (e[0] + re, e[1] + im)
    rho = [{"k": list(k), "b": list(b), "re": [re.numerator, re.denominator], "im": [im.numerator, im.denominator]}
           for (k, b), (re, im) in ent.items() if re != 0 or im != 0]
    total = max(sum(e["k"]) for e in rho)
    cutoff = total + 1 + rng.randint(0, 1)
    modes = rng.sample(range(d), rng.randint(1, d))
    if rng.random() < 0.25:
        modes = sorted(modes)
    prep = [{"k": "DM", "modes": [], "args": {"ket": e["k"], "bra": e["b"], "re": float(Fraction(*e["re"])), "im": float(Fraction(*e["im"]))}} for e in rho]
    split = rng.randint(1, len(modes) - 1) if len(modes) >= 2 else None
    return {"sim": "fock", "d": d, "cutoff": cutoff, "rho": rho, "modes": modes, "split": split,
            "trace": float(sum(Fraction(*e["re"]) for e in rho if e["k"] == e["b"])),
            "run": {"sim": "fock", "d": d, "cutoff": cutoff, "instrs": prep + [{"k": "PNM", "modes": modes, "args": {}}], "shots": None}}


def crho(rho):
    return clist(rho, lambda e: "((%s, %s), (%s, %s))" % (clist(e["k"], cnat), clist(e["b"], cnat), cq(e["re"]), cq(e["im"])))


def codbranches(brs):
    def one(b):
        ent = "[]" if b["state"] is None else clist(b["state"]["dentries"], lambda e: "((%s, %s), (%s, %s))" % (clist(e[0], cnat), clist(e[1], cnat), cq(e[2]), cq(e[3])))
        return "(%s, %s, %s, %s)" % (clist(b["outcome"], cnat), cq(b["freq"]), copt(b["d"], cnat), ent)
    return clist(brs, one)


DENS_BODY = """
Definition dcases : list (nat * qdstate * list (list nat) * list odbranch) := %s.
Eval vm_compute in mismatches (fun '(d, rho, Ls, obs) => dens_case_ok d rho Ls obs) dcases.
Definition dsj : list (nat * qdstate * list nat * list nat) := %s.
Eval vm_compute in mismatches (fun '(d, rho, L1, L2) => dens_seq_joint_ok d rho L1 L2) dsj.
"""


def run_dens_stream(chk, gens, out, corr_broken):
    items, owners, sj = [], [], []
    for g, o in zip(gens, out):
        if "error" in o:
            chk.violation("C03:fock:exact-measurement-raises", "exact (shots=None) measurement raised: " + o["error"], {"case": g["run"]})
            continue
        items.append("(%s, %s, %s, %s)" % (cnat(g["d"]), crho(g["rho"]), clist([g["modes"]], lambda L: clist(L, cnat)), codbranches(o["branches"])))
        owners.append((g, o))
        if g["split"]:
            sj.append("(%s, %s, %s, %s)" % (cnat(g["d"]), crho(g["rho"]), clist(g["modes"][:g["split"]], cnat), clist(g["modes"][g["split"]:], cnat)))
        sw = sum(float(fr(b["freq"])) for b in o["branches"])
        if abs(sw - g["trace"]) > 1e-9 * (1 + abs(g["trace"])):
            chk.violation("C03:fock:exact-weights-sum", "shots=None: the branch weights sum to %r, the trace of the measured density matrix is %r" % (sw, g["trace"]), {"case": g["run"]})
    bodies = []
    chunk = 60
    for i in range(0, len(items), chunk):
        bodies.append(PIMPORTS + DENS_BODY % ("[" + ";\n".join(items[i:i + chunk]) + "]", "[" + ";\n".join(sj if i == 0 else []) + "]"))
    for j, o in enumerate(coq_eval_parallel("c03_dens", bodies, jobs=4)):
        g2 = parse_coq_list(o)
        for k in g2[0]:
            g, ob = owners[j * chunk + k]
            chk.violation("C03:fock:exact-branches-vs-density-model",
                          "shots=None: weights / branch density matrices differ from the exact density-matrix model (trace %.12g, measured modes %s): implementation weights %s" % (
                              g["trace"], g["modes"], [(tuple(b["outcome"]), round(float(fr(b["freq"])), 9)) for b in ob["branches"]][:6]),
                          {"case": g["run"]}, source="correspondence")
            corr_broken.append("density-matrix model != FockSimulator (modes %s, %d entries)" % (g["modes"], len(g["rho"])))
        for k in g2[1]:
            corr_broken.append("density-matrix model: sequential != joint (evaluation of the model itself)")
    chk.stream("density-matrix model (exact Gaussian-rational entries, trace not always 1) vs FockSimulator with shots=None: outcomes, weights, "
               "every entry of every branch density matrix, weight sum = trace",
               len(items), len({json.dumps([g["rho"], g["modes"]]) for g in gens if len(g["rho"]) >= 2}),
               samples=[{"entries": len(gens[0]["rho"]), "modes": gens[0]["modes"], "trace": gens[0]["trace"]}] if gens else None,
               note="%d splits also evaluated inside the model (sequential = joint)" % len(sj))


# =========================================================================== passive lazy post-selection
LAZY_WITNESS = {"d": 3, "a": 0, "b": 1, "t": None, "spect": [0, 0, 0], "Ls": [[0], [2]]}


def gen_lazy(rng):
    """one photon through one beamsplitter (cos = (1-t^2)/(1+t^2), or 50:50) plus spectator photons:
    the joint distribution over all modes is rational whatever the sign conventions"""
    d = rng.randint(3, 4)
    a, b = rng.sample(range(d), 2)
    spect = [0] * d
    for m in range(d):
        if m not in (a, b) and rng.random() < 0.4:
            spect[m] = 1
    t = rng.choice([None, [1, 2], [1, 3], [2, 1]])
    modes = rng.sample(range(d), rng.randint(2, d))
    nparts = rng.randint(2, min(3, len(modes)))
    cuts = sorted(rng.sample(range(1, len(modes)), nparts - 1))
    Ls = [modes[x:y] for x, y in zip([0] + cuts, cuts + [len(modes)])]
    return {"d": d, "a": a, "b": b, "t": t, "spect": spect, "Ls": Ls}


def lazy_request(g):
    n = list(g["spect"])
    n[g["a"]] += 1
    gate = {"k": "BS50", "modes": [g["a"], g["b"]], "args": {}} if g["t"] is None else \
        {"k": "BS", "modes": [g["a"], g["b"]], "args": {"theta": 2 * math.atan(g["t"][0] / g["t"][1]), "phi": 0.0}}
    return {"sim": "passive", "d": g["d"], "cutoff": sum(n) + 3, "shots": None,
            "instrs": [{"k": "NS", "modes": [], "args": {"n": n}}, gate] + [{"k": "PNM", "modes": L, "args": {}} for L in g["Ls"]]}


def lazy_dist(g):
    if g["t"] is None:
        c2 = Fraction(1, 2)
    else:
        t = Fraction(*g["t"])
        c2 = ((1 - t * t) / (1 + t * t)) ** 2
    va = list(g["spect"]); va[g["a"]] += 1
    vb = list(g["spect"]); vb[g["b"]] += 1
    return [(va, c2), (vb, 1 - c2)]


LAZY_BODY = """
Definition lcases : list (pdist * nat * Z * list (list nat) * option (list (vec * Q))) := %s.
Eval vm_compute in mismatches (fun '(dist, d, cutoff, Ls, obs) => lazy_case_ok dist d cutoff Ls obs) lcases.
"""


def run_lazy_stream(chk, gens, out, corr_broken):
    items = []
    nerr = 0
    for g, o in zip(gens, out):
        if "error" in o:
            if "postselected modes" not in o["error"]:
                corr_broken.append("passive lazy-postselection tie: unexpected exception %s for %s" % (o["error"][:120], g))
                continue
            obs = "None"
            nerr += 1
        else:
            nz = [b for b in o["branches"] if abs(fr(b["freq"])) > Fraction(1, 10 ** 12)]
            obs = "(Some %s)" % clist(nz, lambda b: "(%s, %s)" % (clist(b["outcome"], cnat), cq(b["freq"])))
        dist = clist(lazy_dist(g), lambda vw: "(%s, %s)" % (clist(vw[0], cnat), cq([vw[1].numerator, vw[1].denominator])))
        items.append("(%s, %s, %s, %s, %s)" % (dist, cnat(g["d"]), cz(sum(g["spect"]) + 4), clist(g["Ls"], lambda L: clist(L, cnat)), obs))
    res = parse_coq_list(coq_eval_parallel("c03_lazy", [PIMPORTS + LAZY_BODY % ("[" + ";\n".join(items) + "]")], jobs=1)[0])
    for k in res[0]:
        corr_broken.append("passive lazy-postselection model != PassiveSimulator (shots=None) for %s: %s" % (gens[k], str(out[k])[:300]))
    chk.stream("model of the passive simulator's lazy post-selection bookkeeping (positions handed where labels are expected, joint instead of "
               "conditional probabilities) vs PassiveSimulator with shots=None: branch outcomes and weights, or the spurious exception",
               len(items), len({json.dumps(g, sort_keys=True) for g in gens}),
               samples=[{"case": gens[0], "observed": str(out[0])[:200]}],
               note="%d of the runs raise 'Marginal probabilities cannot be calculated for postselected modes' and the model predicts it; "
                    "this stream ties the model that pins the open finding C03:passive:mid-circuit-measurement-exact-weights, it does not judge the property" % nerr)

# =========================================================================== weights vs the state's own norm
K_WEIGHTS_NORM = "C03:%s:exact-weights-vs-state-probabilities"


def gen_norm(rng, n):
    """shots=None on states whose norm is not 1, from every source the simulators offer:
    preparations with coefficients of norm != 1, norm lost at the cutoff by active gates,
    PostSelectPhotons before the measurement, density matrices of trace != 1, loss.  The
    branch weights must be the marginal Fock probabilities of the pre-measurement state
    itself and sum to its norm (implementation only, floats of the same run)."""
    reqs = []
    for _ in range(n):
        sim = rng.choice(["purefock", "purefock", "purefock", "fock", "fermionic_fock", "passive"])
        d = rng.randint(2, 3 if sim == "fock" else 4)
        prefix = []
        fermi = sim == "fermionic_fock"
        if sim == "passive":
            nvec = [0] * d
            for _ in range(rng.randint(1, 3)):
                nvec[rng.randrange(d)] += 1
            total = sum(nvec)
            prefix.append({"k": "NS", "modes": [], "args": {"n": nvec}})
        else:
            seen = set()
            total = 0
            for _ in range(rng.randint(1, 3)):
                v = tuple(rng.choice([0, 1]) for _ in range(d)) if fermi else tuple(
                    sorted([0] * (d - 1) + [rng.randint(0, 2)], key=lambda _: rng.random()))
                if not fermi and rng.random() < 0.5:
                    v = list(v)
                    v[rng.randrange(d)] += 1
                    v = tuple(v)
                if v in seen:
                    continue
                seen.add(v)
                total = max(total, sum(v))
                c = rng.choice([0.5, 0.75, 0.25, 1.0, 1.25, 0.6])
                if sim == "fock":
                    prefix.append({"k": "DM", "modes": [], "args": {"ket": list(v), "bra": list(v), "re": c, "im": 0.0}})
                else:
                    prefix.append({"k": "NS", "modes": [], "args": {"n": list(v), "re": c * rng.choice([1, -1]), "im": rng.choice([0.0, 0.25])}})
        cutoff = d + 1 if fermi else max(3, total + rng.randint(1, 2))
        for _ in range(rng.randint(0, 4)):
            r = rng.random()
            if r < 0.55:
                a = rng.randrange(d - 1)
                ms = [a, a + 1] if fermi else rng.sample(range(d), 2)
                prefix.append({"k": "BS", "modes": ms, "args": {"theta": 2 * math.atan(rng.choice([0.5, 1 / 3, 2.0, 1.0])), "phi": rng.choice([0.0, 0.5])}})
            elif r < 0.75:
                prefix.append({"k": "PS", "modes": [rng.randrange(d)], "args": {"phi": rng.choice([0.25, 1.5])}})
            elif sim in ("purefock", "fock"):   # active gate: norm leaks out at the cutoff
                prefix.append({"k": "SQ", "modes": [rng.randrange(d)], "args": {"r": rng.choice([0.25, 0.5]), "phi": 0.0}})
            elif sim == "passive":
                prefix.append({"k": "LOSS", "modes": [rng.randrange(d)], "args": {"t": rng.choice([0.5, 0.75])}})
        free = list(range(d))
        post = False
        if sim in ("purefock", "passive") and rng.random() < 0.4:
            pm = rng.sample(range(d), rng.randint(1, d - 1))
            prefix.append({"k": "POST", "modes": pm, "args": {"counts": [rng.choice([0, 0, 1]) for _ in pm]}})
            free = [m for m in free if m not in pm]
            post = True
        if sim == "passive" and post:
            modes = list(free)      # a partial measurement after a post-selection is the open passive finding
            rng.shuffle(modes)
        else:
            modes = rng.sample(free, rng.randint(1, len(free)))
        reqs.append({"sim": sim, "d": d, "cutoff": cutoff, "prefix": prefix, "modes": modes, "post": post})
    return reqs


def run_norm_stream(chk, reqs, out):
    nok = 0
    nunnorm = 0
    unsupported = 0
    for r, o in zip(reqs, out):
        if "error" in o:
            if r["sim"] == "passive":
                unsupported += 1
            else:
                chk.violation("C03:%s:exact-measurement-raises" % r["sim"], "shots=None measurement of an unnormalised state raised: " + o["error"], {"case": r})
            continue
        nok += 1
        norm = o["norm"]
        if abs(norm - 1) > 1e-6:
            nunnorm += 1
        w = {tuple(k): v for k, v in o["weights"]}
        mg = {tuple(k): v for k, v in o["marginal"]}
        keys = {k for k, v in w.items() if abs(v) > 1e-12} | {k for k, v in mg.items() if abs(v) > 1e-12}
        tol = 1e-9 * (1 + abs(norm))
        bad = [k for k in sorted(keys) if abs(w.get(k, 0.0) - mg.get(k, 0.0)) > tol]
        sw, sm = sum(w.values()), sum(mg.values())
        if bad or abs(sw - norm) > tol:
            k = bad[0] if bad else None
            key = K_WEIGHTS_NORM % r["sim"]
            # PassiveState.fock_probabilities is itself wrong (not normalised) for a
            # non-uniformly lossy state with a complex interferometer: the open finding
            # C05:ryser-coefficient-extraction:conjugated-outer-product.  When the weights
            # equal the state's own (wrong) marginals and only their sum is off, the
            # executor did its job; the case is keyed to that root cause.
            lossy_complex = (r["sim"] == "passive" and any(st["k"] == "LOSS" for st in r["prefix"])
                             and any(st["k"] == "BS" and st["args"].get("phi") for st in r["prefix"]))
            if lossy_complex and not bad and abs(sw - sm) <= tol:
                key = "C03:passive:lossy-complex-interferometer:weights-follow-unnormalised-fock_probabilities"
            chk.violation(key,
                          "shots=None: the branch weights are not the outcome probabilities of the measured state: weights sum to %.12g, state.norm = %.12g (its Fock probabilities sum to %.12g)%s" % (
                              sw, norm, sm, "" if k is None else "; outcome %s has weight %.12g, the state's marginal probability is %.12g" % (k, w.get(k, 0.0), mg.get(k, 0.0))),
                          {"case": r, "weights": o["weights"][:12], "marginal": o["marginal"][:12], "norm": norm})
    chk.stream("shots=None weights vs the pre-measurement state's own marginal Fock probabilities and norm, on unnormalised states "
               "(scaled preparations, cutoff truncation, post-selection, trace != 1, loss), implementation only (search)",
               nok, len({json.dumps([r["sim"], r["prefix"], r["modes"]]) for r in reqs}), kind="search",
               note="%d of them with |norm - 1| > 1e-6; %d passive cases not supported by the simulator (raised)" % (nunnorm, unsupported),
               samples=[{"sim": reqs[0]["sim"], "prefix": [(s["k"], s.get("modes")) for s in reqs[0]["prefix"]], "modes": reqs[0]["modes"]}] if reqs else None)


# =========================================================================== replay
def replay(chk: Check, path):
    """./check C03 --replay <file>: re-runs every witness of a replay file (whatever stream it
    came from) on the current tree through the same analysis, and reports what still fails"""
    data = json.load(open(path))
    cases, pgens, sj, norm, seen = [], [], [], [], set()
    for v in data.get("violations", []):
        w = v.get("witness") or {}
        c = w.get("case") if isinstance(w, dict) else None
        if not isinstance(c, dict):
            continue
        key = json.dumps(c, sort_keys=True)
        if key in seen:
            continue
        seen.add(key)
        if "psi" in c and "steps_seq" in c:
            pgens.append(c)
        elif "prefix" in c and "joint" in c:
            sj.append(c)
        elif "prefix" in c and "modes" in c:
            norm.append(c)
        elif "instrs" in c:
            c = dict(c)
            c.setdefault("seed", 0)
            cases.append(c)
    out = run_impl("c03_impl.py", {"cases": cases, "proj": proj_requests(pgens), "seqjoint": sj, "norm": norm}, timeout=3000)
    corr_broken = []
    STRICT["cond_meas"] = bool(out.get("strict_cond_meas"))
    stats = {k: 0 for k in ("ok_runs", "counts_runs", "dup_outcome_runs", "outcome_map_lossy", "build_errors",
                            "counts_overwrite_seen", "modes_not_restored", "det_runs", "cond_meas_failures")}
    chk.proof_broken = []
    chk.coverage.update({"obligations": 0, "discharged": 0})
    if cases:
        run_exec_stream(chk, list(zip(cases, out["cases"])), corr_broken, stats)
        chk.stream("replayed programs (executor tie + accounting search)", len(cases), len(cases))
    if pgens:
        run_proj_stream(chk, pgens, out["proj"], corr_broken)
    if sj:
        run_seqjoint_stream(chk, sj, out["seqjoint"])
    if norm:
        run_norm_stream(chk, norm, out["norm"])
    print("replayed %d witnesses of %s on %s: %d still fail, %d match an open known finding" % (
        len(seen), path, out["piquasso_file"], len(chk.violations), len(chk.known_hits)))
    chk.finish(rule="witnesses of the replay file", explanation="replay of %s (proof obligations are not rebuilt by a replay)" % path,
               correspondence_broken=corr_broken)

# =========================================================================== main
def gen_exec_cases(chk, sims, n_per_sim, corpus_cases):
    rng = chk.rng
    cases = [WITNESS_COND_MEAS] + list(corpus_cases) + [gen_det(rng) for _ in range(n_per_sim["det"])]
    for sim in sims:
        for _ in range(n_per_sim[sim]):
            cases.append(gen_case(rng, sim, chk.thorough))
    return cases


def run_exec_stream(chk, pairs, corr_broken, stats):
    built = [(c, o) for c, o in pairs if "build_error" not in o]
    for c, o in pairs:
        if "build_error" in o:
            stats["build_errors"] += 1
            chk.notes.append("generator produced an unbuildable program: %s" % o["build_error"])
    # model vs implementation inside Coq
    bodies = []
    chunk = 40
    for i in range(0, len(built), chunk):
        part = built[i:i + chunk]
        bodies.append(IMPORTS + EXEC_BODY % (clist(part, lambda t: ccase(t[0], t[1])), cbool(STRICT["cond_meas"])))
    res = coq_eval_parallel("c03_exec", bodies, jobs=4)
    codes = []
    for j, out in enumerate(res):
        g = parse_coq_list(out)
        codes += g[0]
        for k in g[1]:
            c, o = built[j * chunk + k]
            corr_broken.append("recorded simulation step is not a well-formed oracle (sim %s, seed %d)" % (c["sim"], c["seed"]))
    what = {1: "executor: branches/error differ", 2: "Result.samples differs", 4: "Result.get_counts differs",
            5: "Result.outcome_map differs"}
    for (c, o), code in zip(built, codes):
        if code == 0:
            continue
        if code == 3:
            stats["counts_overwrite_seen"] += 1
            continue   # reported with its witness by the direct search below (same run)
        corr_broken.append("%s: model != implementation (sim %s, d %d, shots %s, seed %d, program %s)" % (
            what.get(code, code), c["sim"], c["d"], c["shots"], c["seed"], json.dumps(c["instrs"])[:600]))
    for c, o in built:
        search_case(chk, c, o, stats)
        if c.get("det"):
            search_det(chk, c, o, stats)
    return built, codes


def run(chk: Check):
    chk.proofs()
    T = chk.thorough
    corr_broken = []
    stats = {k: 0 for k in ("ok_runs", "counts_runs", "dup_outcome_runs", "outcome_map_lossy", "build_errors",
                            "counts_overwrite_seen", "modes_not_restored", "det_runs", "cond_meas_failures")}
    sims = ["purefock", "passive", "gaussian", "fermionic_fock", "fock", "fermionic_gaussian"]
    if T:
        n_per = {"purefock": 1500, "passive": 1200, "gaussian": 250, "fermionic_fock": 700, "fock": 350, "fermionic_gaussian": 350, "det": 1500}
    else:
        n_per = {"purefock": 100, "passive": 80, "gaussian": 20, "fermionic_fock": 40, "fock": 20, "fermionic_gaussian": 20, "det": 100}
    n_per = {k: max(2, int(v * SCALE)) for k, v in n_per.items()}
    corpus = []
    if os.path.exists(CORPUS):
        for line in open(CORPUS):
            line = line.strip()
            if line:
                rec = json.loads(line)
                if rec.get("stream") == "exec":
                    corpus.append(rec["case"])
    # all inputs are generated first (deterministic order), then the implementation runs in
    # four processes, then everything is analysed
    cases = gen_exec_cases(chk, sims, n_per, corpus)
    pgens = [gen_proj(chk.rng) for _ in range(max(4, int((1500 if T else 100) * SCALE)))]
    sjreqs = gen_seqjoint(chk, max(3, int((400 if T else 40) * SCALE)))
    nreqs = gen_norm(chk.rng, max(6, int((1200 if T else 120) * SCALE)))
    dgens = [gen_dens(chk.rng) for _ in range(max(4, int((600 if T else 50) * SCALE)))]
    lgens = [LAZY_WITNESS] + [gen_lazy(chk.rng) for _ in range(max(3, int((300 if T else 30) * SCALE)))]
    jobs = [{"cases": cases[0::2]}, {"cases": cases[1::2]}, {"proj": proj_requests(pgens) + [g["run"] for g in dgens] + [lazy_request(g) for g in lgens]},
            {"seqjoint": sjreqs, "norm": nreqs}]
    from concurrent.futures import ThreadPoolExecutor
    with ThreadPoolExecutor(max_workers=4) as ex:
        outs = list(ex.map(lambda j: run_impl("c03_impl.py", j, timeout=6000), jobs))
    pairs = list(zip(cases[0::2], outs[0]["cases"])) + list(zip(cases[1::2], outs[1]["cases"]))
    chk.notes.append("implementation imported from %s" % outs[0]["piquasso_file"])
    STRICT["cond_meas"] = bool(outs[0].get("strict_cond_meas"))
    chk.notes.append("tree refuses conditioned mid-circuit measurements at validation time: %s" % STRICT["cond_meas"])
    built, codes = run_exec_stream(chk, pairs, corr_broken, stats)
    distinct = len({structure_key(c) for c, o in built if nontrivial(c, o)})
    errs = sum(1 for c, o in built if o.get("error") is not None)
    hist = {}
    for c, o in built:
        hist[c["sim"]] = hist.get(c["sim"], 0) + 1
    sample = next(({"sim": c["sim"], "shots": c["shots"], "program": [(s["k"], s.get("modes")) for s in c["instrs"]],
                    "branches": [(b["outcome"], b["freq"]) for b in o["branches"]][:4]} for c, o in built if nontrivial(c, o)), None)
    chk.stream("adaptive programs: executor model replaying the recorded oracle answers vs Simulator.execute "
               "(branches, ids, frequencies, state.d, un-shuffled samples, get_counts, outcome_map, error kind)",
               len(built), distinct, samples=[sample] if sample else None,
               note="per simulator %s; %d runs ended in an exception (compared by kind); %d runs with duplicate-outcome branches; "
                    "%d runs where outcome_map has fewer entries than branches" % (hist, errs, stats["dup_outcome_runs"], stats["outcome_map_lossy"]))
    chk.stream("shot accounting stated directly on Result (search)", stats["ok_runs"], distinct, kind="search")
    chk.stream("deterministic number-state programs with conditioned measurements/gates: the sample is known a priori (search)",
               stats["det_runs"], len({structure_key(c) for c, o in built if c.get("det")}), kind="search",
               note="%d programs with a skipped conditioned measurement gave a wrong sample" % stats["cond_meas_failures"])

    run_proj_stream(chk, pgens, outs[2]["proj"][:2 * len(pgens)], corr_broken)
    run_dens_stream(chk, dgens, outs[2]["proj"][2 * len(pgens):2 * len(pgens) + len(dgens)], corr_broken)
    run_lazy_stream(chk, lgens, outs[2]["proj"][2 * len(pgens) + len(dgens):], corr_broken)
    run_seqjoint_stream(chk, sjreqs, outs[3]["seqjoint"])
    run_norm_stream(chk, nreqs, outs[3]["norm"])

    chk.assumptions += [
        "wf_step (section hypothesis of the accounting theorems): every simulation step asked for k>=1 shots answers with Fraction frequencies c_i/k, c_i>=1, sum k — decided by wf_table on every recorded call of every run",
        "the simulation steps themselves (physics, RNG) are not modelled in the executor part: their answers are recorded and replayed",
    ]
    chk.finish(
        rule="non-trivial = program with >= 2 measurements or >= 1 condition, and >= 2 resulting branches; distinct by (simulator, d, shots, instruction kinds, modes, conditions, parameter expressions)",
        explanation="Theorems of coq/theories/Props/C03.v about the executor model (C03/ExecModel.v) for every program, oracle history and shots; tie = the model replays the recorded answers of the real simulation steps and must reproduce Simulator.execute's branch list, samples, counts and errors exactly; search = the accounting identities evaluated on Result directly.",
        correspondence_broken=corr_broken,
    )
