"""Shared machinery of the /verif checks (see DESIGN.md sections 2 and 3).

Runs under /venv/bin/python.  Everything random derives from VERIF_SEED.
"""
import hashlib
import json
import os
import random
import re
import subprocess
import sys
import time

VERIF = os.path.dirname(os.path.dirname(os.path.abspath(__file__)))
REPO = os.environ.get("VERIF_REPO", "/repo")
COQ = os.path.join(VERIF, "coq")
EVID = os.environ.get("VERIF_EVIDENCE_DIR") or os.path.join(VERIF, "evidence")
RUN = os.path.join(VERIF, ".run")
VENV_PY = "/venv/bin/python"
KNOWN = os.path.join(VERIF, "known_findings.json")


# --------------------------------------------------------------------------- env
def repo_tree_hash():
    """Hash of every source file of /repo that the implementation side loads.
    Used to key the numba cache: a stale numba cache (cache=True is keyed by the
    file of the *caller* only) must never hide a change in a callee."""
    h = hashlib.sha256()
    for root in ("piquasso", "src"):
        base = os.path.join(REPO, root)
        for dp, dn, fn in os.walk(base):
            dn[:] = sorted(x for x in dn if x != "__pycache__")
            for f in sorted(fn):
                if f.endswith((".py", ".cpp", ".hpp", ".h")):
                    p = os.path.join(dp, f)
                    h.update(p.encode())
                    with open(p, "rb") as fh:
                        h.update(fh.read())
    return h.hexdigest()[:16]


_TREE = None


def impl_env(extra=None):
    global _TREE
    if _TREE is None:
        _TREE = repo_tree_hash()
    env = dict(os.environ)
    # harness/site/sitecustomize.py re-targets the editable-install finder to VERIF_REPO
    env["PYTHONPATH"] = os.pathsep.join(
        [os.path.join(VERIF, "harness", "site"), REPO, os.path.join(VERIF, "harness")]
    )
    env["VERIF_REPO"] = REPO
    env["PYTHONHASHSEED"] = "0"
    cache = os.path.join(RUN, "numba", _TREE)
    os.makedirs(cache, exist_ok=True)
    # drop cache generations not used for 3 hours (never one that may be in use by a
    # concurrent check against another tree)
    os.utime(cache, None)
    parent = os.path.dirname(cache)
    now = time.time()
    for d in os.listdir(parent):
        pth = os.path.join(parent, d)
        try:
            if pth != cache and now - os.path.getmtime(pth) > 3 * 3600:
                subprocess.run(["rm", "-rf", pth])
        except OSError:
            pass
    env["NUMBA_CACHE_DIR"] = cache
    env["PIQUASSO_VERIF"] = "1"
    env["TF_CPP_MIN_LOG_LEVEL"] = "3"
    env.setdefault("JAX_PLATFORMS", "cpu")
    # several checks run side by side on 16 cores: keep each runner's thread pools small
    # (a check that sweeps thread counts overrides these through extra_env)
    for var, val in (("OMP_NUM_THREADS", "2"), ("OPENBLAS_NUM_THREADS", "2"),
                     ("MKL_NUM_THREADS", "2"), ("NUMBA_NUM_THREADS", "4"),
                     ("TF_NUM_INTRAOP_THREADS", "2"), ("TF_NUM_INTEROP_THREADS", "2")):
        env.setdefault(var, val)
    if extra:
        env.update(extra)
    return env


def run_impl(script, request, timeout=1800, extra_env=None):
    """Run harness/impl/<script> under the repo's interpreter; JSON in, JSON out."""
    path = os.path.join(VERIF, "harness", "impl", script)
    p = subprocess.run(
        [VENV_PY, path],
        input=json.dumps(request),
        capture_output=True,
        text=True,
        timeout=timeout,
        env=impl_env(extra_env),
        cwd=VERIF,
    )
    if p.returncode != 0:
        raise RuntimeError(
            "implementation runner %s failed (exit %d):\n%s"
            % (script, p.returncode, p.stderr[-4000:])
        )
    # last line is the JSON answer (libraries may print above it)
    line = p.stdout.strip().splitlines()[-1]
    return json.loads(line)


# --------------------------------------------------------------------------- coq
def coq_make(targets, timeout=3000):
    """Full .vo build of the given targets (relative to coq/), dependencies included."""
    cmd = [os.path.join(COQ, "build.sh")] + list(targets)
    p = subprocess.run(cmd, capture_output=True, text=True, timeout=timeout + 60)
    return p.returncode == 0, (p.stdout + p.stderr)[-6000:]


THEOREM_RE = re.compile(r"^\s*(Theorem|Lemma|Corollary|Example|Fact)\s+([A-Za-z0-9_']+)", re.M)
FORBIDDEN_RE = re.compile(
    r"\b(Admitted|admit|Axiom|Axioms|Parameter|Parameters|Conjecture|Abort All|"
    r"Unset Guard Checking|bypass_check|Admit Obligations|native_compute)\b|"
    r"-type-in-type|-impredicative-set|Unset Universe Checking|Unset Positivity Checking"
)


def forbidden_scan():
    """Grep the whole development for constructs the brief forbids."""
    hits = []
    for dp, dn, fn in os.walk(os.path.join(COQ, "theories")):
        for f in fn:
            if f.endswith(".v"):
                p = os.path.join(dp, f)
                txt = open(p).read()
                # strip comments (non-nested handling is enough: we never nest)
                txt2 = re.sub(r"\(\*.*?\*\)", "", txt, flags=re.S)
                for m in FORBIDDEN_RE.finditer(txt2):
                    hits.append("%s: %s" % (os.path.relpath(p, COQ), m.group(0)))
    return hits


def coq_props(prop_id, deps_targets=None, timeout=1800):
    """Compile Props/<id>.v from scratch (after building what it depends on) and
    collect theorem names and the Print Assumptions output."""
    rel = "theories/Props/%s.v" % prop_id
    src = os.path.join(COQ, rel)
    res = {
        "file": rel,
        "theorems": [],
        "obligations": 0,
        "discharged": 0,
        "axioms": [],
        "ok": False,
        "log": "",
        "broken": [],
    }
    if not os.path.exists(src):
        res["log"] = "missing " + rel
        return res
    text = open(src).read()
    names = [(m.group(2), text[: m.start()].count("\n") + 1) for m in THEOREM_RE.finditer(text)]
    res["theorems"] = [n for n, _ in names]
    res["obligations"] = len(names)
    hits = forbidden_scan()
    if hits:
        res["log"] = "forbidden vernacular: " + "; ".join(hits[:10])
        res["broken"] = res["theorems"]
        return res
    vo = rel[:-2] + ".vo"
    try:
        os.remove(os.path.join(COQ, vo))
    except FileNotFoundError:
        pass
    ok, log = coq_make([vo], timeout=timeout)
    res["log"] = log
    if ok:
        res["ok"] = True
        res["discharged"] = len(names)
        axioms = set()
        # Print Assumptions output: "Axioms:" blocks list "name : type"
        for blk in re.split(r"\n(?=Closed under|Axioms:)", log):
            if blk.startswith("Axioms:"):
                for m in re.finditer(r"^([A-Za-z_][\w.']*)\s*:", blk, re.M):
                    if m.group(1) != "Axioms":
                        axioms.add(m.group(1))
        res["axioms"] = sorted(axioms)
        res["closed"] = log.count("Closed under the global context")
    else:
        m = re.search(r'File "\./%s", line (\d+)' % re.escape(rel), log)
        if m:
            line = int(m.group(1))
            res["discharged"] = sum(1 for _, l in names if l < line) - 1
            res["discharged"] = max(res["discharged"], 0)
            # the theorem being proved at that line
            cur = [n for n, l in names if l <= line]
            res["broken"] = cur[-1:] if cur else res["theorems"]
        else:
            # a dependency failed: name the file
            m2 = re.search(r'File "\./(theories/[^"]+)", line (\d+)', log)
            res["broken"] = ["dependency " + (m2.group(1) + ":" + m2.group(2) if m2 else "?")]
    return res


def coq_eval(tag, body, timeout=900):
    """Compile a generated .v (cases file) and return coqc's stdout."""
    d = os.path.join(RUN, "cases", str(os.getpid()))
    os.makedirs(d, exist_ok=True)
    name = re.sub(r"\W", "_", tag)
    path = os.path.join(d, name + ".v")
    with open(path, "w") as f:
        f.write(body)
    p = subprocess.run(
        ["bash", "-c", "ulimit -s unlimited 2>/dev/null; exec coqc -q -Q %s PV -w none %s"
         % (os.path.join(COQ, "theories"), path)],
        capture_output=True, text=True, timeout=timeout, cwd=d,
    )
    for ext in (".vo", ".vok", ".vos", ".glob"):
        try:
            os.remove(os.path.join(d, name + ext))
        except FileNotFoundError:
            pass
    try:
        os.remove(os.path.join(d, "." + name + ".aux"))
    except FileNotFoundError:
        pass
    if p.returncode != 0:
        raise RuntimeError("coqc failed on %s:\n%s" % (path, (p.stdout + p.stderr)[-3000:]))
    if not os.environ.get("VERIF_KEEP_CASES"):
        try:
            os.remove(path)
            os.rmdir(d)
        except OSError:
            pass
    return p.stdout


def coq_eval_parallel(tag, bodies, timeout=1800, jobs=8):
    """Evaluate several cases files concurrently; returns list of stdouts."""
    from concurrent.futures import ThreadPoolExecutor

    with ThreadPoolExecutor(max_workers=jobs) as ex:
        futs = [ex.submit(coq_eval, "%s_%d" % (tag, i), b, timeout) for i, b in enumerate(bodies)]
        return [f.result() for f in futs]


def parse_coq_list(out):
    """Parse the result of `Eval vm_compute in <list of Z/nat>` -> list of ints.
    Several Evals in one file: returns one list per '= ... :' group."""
    groups = []
    for m in re.finditer(r"=\s*(\[.*?\]|nil)\s*:\s*list", out, re.S):
        s = m.group(1)
        groups.append([int(x) for x in re.findall(r"-?\d+", s.replace("%Z", "").replace("%nat", "").replace("%N", ""))])
    return groups


# ---- python value -> Coq term (Z_scope assumed open in the cases file)
def cz(n):
    n = int(n)
    return "(%d)" % n if n < 0 else str(n)


def clist(xs, f=cz):
    return "[" + "; ".join(f(x) for x in xs) + "]"


def copt(x, f=cz):
    return "None" if x is None else "(Some %s)" % f(x)


def cbool(b):
    return "true" if b else "false"


def cq(fr):
    """fractions.Fraction -> Coq Q literal (Qmake)"""
    return "(Qmake %s %d)" % (cz(fr.numerator), fr.denominator)


CASES_HEADER = """From Coq Require Import ZArith QArith List Bool String.
Import ListNotations.
Open Scope Z_scope.
Set Printing Width 1000000.
Set Printing Depth 1000000.
"""

MISMATCH_DEF = """
Fixpoint mismatches_from {A} (ok : A -> bool) (i : Z) (l : list A) : list Z :=
  match l with [] => [] | a :: r => if ok a then mismatches_from ok (i+1) r else i :: mismatches_from ok (i+1) r end.
"""


# --------------------------------------------------------------------------- findings / evidence
def load_known(prop_id):
    if not os.path.exists(KNOWN):
        return []
    data = json.load(open(KNOWN))
    return [e for e in data.get("findings", []) if e.get("property") == prop_id]


class Check:
    """One run of one property's check."""

    def __init__(self, prop_id, tier=None, seed=None):
        self.prop = prop_id
        self.tier = tier or os.environ.get("VERIF_TIER", "quick")
        if self.tier not in ("quick", "thorough"):
            self.tier = "quick"
        self.seed = int(seed if seed is not None else os.environ.get("VERIF_SEED", "0"))
        self.rng = random.Random(self.seed * 1000003 + int(prop_id[1:]))
        self.t0 = time.time()
        self.violations = []  # dicts: {key, what, replay}
        self.known_hits = []
        self.coverage = {
            "evaluations": 0,
            "distinct_nontrivial": 0,
            "samples": [],
            "streams": {},
        }
        self.assumptions = []
        self.notes = []
        self.known = load_known(prop_id)
        os.makedirs(EVID, exist_ok=True)

    @property
    def thorough(self):
        return self.tier == "thorough"

    # -- proofs
    def proofs(self, timeout=1800):
        res = coq_props(self.prop, timeout=timeout)
        self.proof = res
        cov = self.coverage
        cov["obligations"] = res["obligations"]
        cov["discharged"] = res["discharged"]
        cov["checker_cmd"] = "coq/build.sh %so  (coqc 8.16.1, full .vo build of the dependency closure)" % res["file"]
        cov["theorems"] = res["theorems"]
        tb = ["Coq 8.16.1 kernel (coqc, vm_compute; no native_compute)"]
        tb += ["axiom (Print Assumptions): " + a for a in res["axioms"]]
        if not res["axioms"] and res["ok"]:
            tb.append("Print Assumptions: every theorem of %s closed under the global context" % res["file"])
        cov["trusted_base"] = tb
        if not res["ok"]:
            self.proof_broken = res["broken"] or ["?"]
        else:
            self.proof_broken = []
        return res

    # -- streams
    def stream(self, name, evaluations, nontrivial, samples=None, exhaustive=None, note=None, kind="correspondence"):
        s = {"kind": kind, "evaluations": int(evaluations), "distinct_nontrivial": int(nontrivial)}
        if exhaustive is not None:
            s["exhaustive"] = bool(exhaustive)
        if note:
            s["note"] = note
        self.coverage["streams"][name] = s
        self.coverage["evaluations"] += int(evaluations)
        self.coverage["distinct_nontrivial"] += int(nontrivial)
        if samples:
            for x in samples[:3]:
                self.coverage["samples"].append({"stream": name, "case": x})

    # -- violations
    def violation(self, key, what, witness, source="search"):
        """A concrete failing input against the implementation (or a broken obligation)."""
        for k in self.known:
            # a listed key may end in '*' (same call site and input class, varying suffix)
            kk = k.get("key", "")
            hit = (kk == key) or (kk.endswith("*") and key.startswith(kk[:-1]))
            if k.get("status") == "open" and hit:
                self.known_hits.append((k, what))
                return
        self.violations.append({"key": key, "what": what, "witness": witness, "source": source})

    def finish(self, rule, explanation, correspondence_broken=None):
        """Write evidence, print the verdict lines, exit."""
        wall = time.time() - self.t0
        cov = self.coverage
        cov["rule"] = rule
        cov["explanation"] = explanation
        if self.notes:
            cov["notes"] = self.notes
        broken = list(getattr(self, "proof_broken", []))
        lines = []
        rc = 0
        seen = set()
        for k, what in self.known_hits:
            if k["key"] in seen:
                continue
            seen.add(k["key"])
            lines.append("KNOWN-FINDING: property=%s %s [%s]" % (self.prop, k.get("what", what), k["key"]))
        replay_path = os.path.join(EVID, "%s.replay.json" % self.prop)
        if self.violations:
            rc = 1
            json.dump(
                {
                    "property": self.prop,
                    "tier": self.tier,
                    "seed": self.seed,
                    "violations": self.violations[:20],
                    "replay_cmd": "./check %s --replay %s" % (self.prop, replay_path),
                    "broken_obligations": broken,
                    "broken_correspondence": correspondence_broken or [],
                },
                open(replay_path, "w"),
                indent=1,
                default=str,
            )
            lines.append("VIOLATION property=%s replay=%s" % (self.prop, replay_path))
        elif broken or correspondence_broken:
            rc = 1
            json.dump(
                {
                    "property": self.prop,
                    "tier": self.tier,
                    "seed": self.seed,
                    "violations": [],
                    "no_failing_input_found": True,
                    "broken_obligations": broken,
                    "broken_correspondence": correspondence_broken or [],
                    "coq_log_tail": getattr(self, "proof", {}).get("log", "")[-3000:],
                },
                open(replay_path, "w"),
                indent=1,
                default=str,
            )
            lines.append(
                "VIOLATION property=%s replay=%s no-failing-input-found" % (self.prop, replay_path)
            )
        else:
            try:
                os.remove(replay_path)
            except FileNotFoundError:
                pass
        cov["known_findings_reported"] = sorted(seen)
        if cov["distinct_nontrivial"] < 2:
            cov["distinct_nontrivial"] = cov["distinct_nontrivial"]
        ev = {
            "property_id": self.prop,
            "tier": self.tier,
            "seed": self.seed,
            "level": "proof",
            "coverage": cov,
            "assumptions": self.assumptions,
            "wall_s": round(wall, 2),
            "violations": len(self.violations) + (1 if (not self.violations and (broken or correspondence_broken)) else 0),
        }
        with open(os.path.join(EVID, "%s.json" % self.prop), "w") as f:
            json.dump(ev, f, indent=1, default=str)
        for l in lines:
            print(l)
        print(
            "%s %s: obligations %d/%d, evaluations %d (non-trivial %d), violations %d, known %d, %.1fs"
            % (
                self.prop,
                self.tier,
                cov.get("discharged", 0),
                cov.get("obligations", 0),
                cov["evaluations"],
                cov["distinct_nontrivial"],
                ev["violations"],
                len(seen),
                wall,
            )
        )
        sys.stdout.flush()
        sys.exit(rc)


def shrink_list(xs, fails):
    """Greedy delta-debugging on a list: drop elements while `fails` stays true."""
    xs = list(xs)
    i = 0
    while i < len(xs):
        cand = xs[:i] + xs[i + 1:]
        if cand and fails(cand):
            xs = cand
        else:
            i += 1
    return xs
