(* C13 — Invalid programs are rejected up front; valid ones are never refused.
   Only statements closed by [exact]; the model is C13/ValidateModel.v, the declarative
   predicate C13/ValidateSpec.v, the proofs C13/ValidateProofs.v and C13/FaultProofs.v,
   the per-simulator tables C13/SimTablesGen.v (regenerated from the package on every run). *)
From Coq Require Import ZArith QArith List Bool.
From PV Require Import C13.SimTypes C13.ValidateModel C13.ValidateSpec C13.ValidateProofs
  C13.FaultProofs C13.SimTablesGen C13.TableProofs C13.ParamModel C13.ParamProofs.
Import ListNotations.
Open Scope Z_scope.

(* the validation made before the loop accepts exactly the well-formed requests,
   for every simulator table, request and number of modes *)
Theorem C13_validator_decides_wellformed : forall T r,
  validate_upfront T r = None <-> WellFormed T r.
Proof. exact validate_upfront_wf. Qed.
Print Assumptions C13_validator_decides_wellformed.

(* rejected for a structural reason iff not well-formed, whatever the outcomes *)
Theorem C13_reject_iff_not_wf : forall T Orc r,
  (exists e n, run T Orc r = Refused e n /\ structural e = true) <-> ~ WellFormed T r.
Proof. exact reject_iff_not_wf. Qed.
Print Assumptions C13_reject_iff_not_wf.

(* a structural refusal happens before any simulation step is started ... *)
Theorem C13_reject_before_evolution : forall T Orc r e n,
  run T Orc r = Refused e n -> structural e = true -> n = 0%nat.
Proof. exact reject_before_evolution. Qed.
Print Assumptions C13_reject_before_evolution.

(* ... and raises a Piquasso exception (class = exn_of rule) *)
Theorem C13_reject_is_piquasso : forall T Orc r e n,
  run T Orc r = Refused e n -> structural e = true -> is_piquasso (exn_of e) = true.
Proof. exact reject_is_piquasso. Qed.
Print Assumptions C13_reject_is_piquasso.

(* the same through program construction (Q, on_modes) *)
Theorem C13_submit_reject_before_evolution : forall T Orc simd v s init script rl n,
  submit T Orc simd v s init script = VRefused rl n -> structural rl = true -> n = 0%nat.
Proof. exact submit_reject_before_evolution. Qed.
Print Assumptions C13_submit_reject_before_evolution.

(* a well-formed request is never refused for a structural reason, for every oracle
   (condition values, outcome-dependent parameters, number of sub-branches of every step) *)
Theorem C13_accept : forall T r, WellFormed T r ->
  forall Orc e n, run T Orc r = Refused e n -> structural e = false.
Proof. exact accept. Qed.
Print Assumptions C13_accept.

(* and completes when no callable and no numeric step raises *)
Theorem C13_accept_completes : forall T r Orc, WellFormed T r -> Benign Orc ->
  exists b n k, run T Orc r = Done b n k.
Proof. exact accept_benign. Qed.
Print Assumptions C13_accept_completes.

(* single faults: the rule violated decides the exception (each lemma assumes only the rules
   the code checks earlier) *)
Theorem C13_fault_shots : forall T r, ~ ShotsOK (r_shots r) ->
  validate_upfront T r = Some RShots.
Proof. exact fault_shots. Qed.
Theorem C13_fault_no_d : forall T r, ShotsOK (r_shots r) ->
  eff_d (r_simd r) (r_prog r) = None -> validate_upfront T r = Some RNoD.
Proof. exact fault_no_d. Qed.
Theorem C13_fault_unsupported : forall T r d, ShotsOK (r_shots r) ->
  eff_d (r_simd r) (r_prog r) = Some d -> ~ Forall (Supported T) (r_prog r) ->
  validate_upfront T r = Some RExist.
Proof. exact fault_exist. Qed.
Theorem C13_fault_range : forall T r d, ShotsOK (r_shots r) ->
  eff_d (r_simd r) (r_prog r) = Some d -> Forall (Supported T) (r_prog r) ->
  Forall Distinct (r_prog r) -> ~ Forall (InRange d) (r_prog r) ->
  validate_upfront T r = Some RRange.
Proof. exact fault_range. Qed.
Theorem C13_fault_repeated : forall T r d, ShotsOK (r_shots r) ->
  eff_d (r_simd r) (r_prog r) = Some d -> Forall (Supported T) (r_prog r) ->
  Forall (InRange d) (r_prog r) -> ~ Forall Distinct (r_prog r) ->
  validate_upfront T r = Some RRepeated.
Proof. exact fault_repeated. Qed.
Theorem C13_fault_preparation_late : forall T r d, ShotsOK (r_shots r) ->
  eff_d (r_simd r) (r_prog r) = Some d -> Forall (Supported T) (r_prog r) ->
  Forall (InRange d) (r_prog r) -> Forall Distinct (r_prog r) -> ~ PrepsFirst (r_prog r) ->
  validate_upfront T r = Some RPrepFirst.
Proof. exact fault_prep. Qed.
Theorem C13_fault_mid_circuit : forall T r d, ShotsOK (r_shots r) ->
  eff_d (r_simd r) (r_prog r) = Some d -> Forall (Supported T) (r_prog r) ->
  Forall (InRange d) (r_prog r) -> Forall Distinct (r_prog r) -> PrepsFirst (r_prog r) ->
  ~ MeasLast T (r_prog r) -> validate_upfront T r = Some RMeasLast.
Proof. exact fault_meas. Qed.
Theorem C13_fault_measured_mode : forall T r d, ShotsOK (r_shots r) ->
  eff_d (r_simd r) (r_prog r) = Some d -> Forall (Supported T) (r_prog r) ->
  Forall (InRange d) (r_prog r) -> Forall Distinct (r_prog r) -> PrepsFirst (r_prog r) ->
  MeasLast T (r_prog r) -> ActiveArity d (r_prog r) -> ~ ActiveModes (r_prog r) ->
  validate_upfront T r = Some RActive.
Proof. exact fault_active. Qed.
Theorem C13_fault_all_mode_arity : forall T r d, ShotsOK (r_shots r) ->
  eff_d (r_simd r) (r_prog r) = Some d -> Forall (Supported T) (r_prog r) ->
  Forall (InRange d) (r_prog r) -> Forall Distinct (r_prog r) -> PrepsFirst (r_prog r) ->
  MeasLast T (r_prog r) -> ActiveModes (r_prog r) -> ~ ActiveArity d (r_prog r) ->
  validate_upfront T r = Some RActiveArity.
Proof. exact fault_arity. Qed.
Theorem C13_fault_shots_none : forall T r d, ShotsOK (r_shots r) ->
  eff_d (r_simd r) (r_prog r) = Some d -> Forall (Supported T) (r_prog r) ->
  Forall (InRange d) (r_prog r) -> Forall Distinct (r_prog r) -> PrepsFirst (r_prog r) ->
  MeasLast T (r_prog r) -> ActiveModes (r_prog r) -> ActiveArity d (r_prog r) ->
  ~ ShotsNoneOK T (r_shots r) (r_prog r) -> validate_upfront T r = Some RShotsNone.
Proof. exact fault_shots_none. Qed.
Theorem C13_fault_initial_state : forall T r d, ShotsOK (r_shots r) ->
  eff_d (r_simd r) (r_prog r) = Some d -> Forall (Supported T) (r_prog r) ->
  Forall (InRange d) (r_prog r) -> Forall Distinct (r_prog r) -> PrepsFirst (r_prog r) ->
  MeasLast T (r_prog r) -> ActiveModes (r_prog r) -> ActiveArity d (r_prog r) ->
  ShotsNoneOK T (r_shots r) (r_prog r) -> ~ InitOK T d (r_init r) ->
  exists e, validate_upfront T r = Some e /\ exn_of e = InvalidState.
Proof. exact fault_init. Qed.
Theorem C13_fault_parameters : forall T r d, ShotsOK (r_shots r) ->
  eff_d (r_simd r) (r_prog r) = Some d -> Forall (Supported T) (r_prog r) ->
  Forall (InRange d) (r_prog r) -> Forall Distinct (r_prog r) -> PrepsFirst (r_prog r) ->
  MeasLast T (r_prog r) -> ActiveModes (r_prog r) -> ActiveArity d (r_prog r) ->
  ShotsNoneOK T (r_shots r) (r_prog r) -> InitOK T d (r_init r) ->
  ~ ParamsOK (r_validate r) (r_prog r) -> validate_upfront T r = Some RParams.
Proof. exact fault_params. Qed.
Print Assumptions C13_fault_parameters.

(* construction: Q(...) accepts exactly non-negative distinct modes *)
Theorem C13_q_init : forall l l',
  q_init (QModes l) = inr l' <-> (l' = l /\ (forall m, In m l -> 0 <= m) /\ NoDup l).
Proof. exact q_init_spec. Qed.
Theorem C13_register_error_class : forall rg i e, register rg i = inl e ->
  e = InvalidModes \/ e = InvalidProgram.
Proof. exact register_error. Qed.
Print Assumptions C13_register_error_class.

(* the inferred number of modes is one more than the largest mode addressed *)
Theorem C13_inferred_d : forall p d,
  (forall i m, In i p -> In m (i_modes i) -> 0 <= m) -> infer_d p = Some d ->
  (forall i m, In i p -> In m (i_modes i) -> m < d) /\
  (exists i m, In i p /\ In m (i_modes i) /\ d = m + 1).
Proof. exact infer_d_spec. Qed.
Print Assumptions C13_inferred_d.

(* the documented parameter constraints that are pure functions of the values
   (tied to Instruction._validate / the step checks by the parameter grid of the check) *)
Theorem C13_param_square : forall r c, documented_param_ok (PSquare r c) = true <-> r = c.
Proof. exact param_square_spec. Qed.
Theorem C13_param_thermal : forall ns,
  documented_param_ok (PThermal ns) = true <-> Forall (fun x => (0 <= x)%Q) ns.
Proof. exact param_thermal_spec. Qed.
Theorem C13_param_interval : forall x,
  documented_param_ok (PInterval01 x) = true <-> ((0 <= x)%Q /\ (x <= 1)%Q).
Proof. exact param_interval_spec. Qed.
Theorem C13_param_snap : forall l c, documented_param_ok (PSnap l c) = true <-> l = c.
Proof. exact param_snap_spec. Qed.
Theorem C13_param_occupation : forall occ c,
  documented_param_ok (POccupation occ c) = true <-> zsum occ < c.
Proof. exact param_occupation_spec. Qed.
Print Assumptions C13_param_thermal.
Example C13_param_symplectic_examples :
  symplectic_real [[5#4; 0#1]; [0#1; 5#4]] [[3#4; 0#1]; [0#1; 3#4]] = true /\
  symplectic_real [[2#1; 0#1]; [0#1; 2#1]] [[0#1; 0#1]; [0#1; 0#1]] = false.
Proof. exact symplectic_squeezing. Qed.

(* finite facts about the generated tables (re-proved on every run) *)
Example C13_tables_sane : tables_sane all_classes all_sims = true.
Proof. exact tables_sane_ok. Qed.

(* non-vacuity: a well-formed request exists and runs; a faulty one is refused at step 0 *)
Example C13_example_accept : example_accept = true.
Proof. exact example_accept_ok. Qed.
Example C13_example_reject : example_reject = true.
Proof. exact example_reject_ok. Qed.
