// C10 native driver: calls grad_perm / permanent_cpp of <repo>/src/permanent.cpp (compiled from
// the working tree by harness/props/c10.py on every run).
// stdin: K, then per case:  n m  rows[n]  cols[m]  n*m pairs (re im)
// stdout per case: "OK gr gc  <gr*gc pairs re im as %a>  perm_re perm_im"  or  "ERR <text>"
#include <complex>
#include <cstdio>
#include <iostream>
#include <string>
#include <vector>

#include "matrix.hpp"
#include "permanent.hpp"

int main()
{
    int K;
    if (!(std::cin >> K)) return 2;
    for (int k = 0; k < K; ++k)
    {
        int n, m;
        std::cin >> n >> m;
        // allocate a little slack after cols so that an out-of-range read is a read of a
        // recognisable value (-7) instead of heap garbage
        std::vector<int> r(n), c(m + 64, -7);
        for (int i = 0; i < n; ++i) std::cin >> r[i];
        for (int j = 0; j < m; ++j) std::cin >> c[j];
        std::vector<std::complex<double>> a(static_cast<size_t>(n) * m + 1);
        for (int i = 0; i < n * m; ++i)
        {
            double re, im;
            std::cin >> re >> im;
            a[i] = std::complex<double>(re, im);
        }
        try
        {
            Matrix<std::complex<double>> A(n, m, a.data());
            Vector<int> rows(n, r.data());
            Vector<int> cols(m, c.data());
            Matrix<std::complex<double>> g = grad_perm(A, rows, cols);
            std::printf("OK %zu %zu", g.rows, g.cols);
            for (size_t i = 0; i < g.rows; ++i)
                for (size_t j = 0; j < g.cols; ++j)
                    std::printf(" %a %a", g(i, j).real(), g(i, j).imag());
            Matrix<std::complex<double>> A2(n, m, a.data());
            std::vector<int> r2(r), c2(c);
            Vector<int> rows2(n, r2.data());
            Vector<int> cols2(m, c2.data());
            std::complex<double> p = permanent_cpp<double>(A2, rows2, cols2);
            std::printf(" %a %a\n", p.real(), p.imag());
        }
        catch (std::string &e)
        {
            std::printf("ERR %s\n", e.c_str());
        }
        catch (...)
        {
            std::printf("ERR unknown exception\n");
        }
    }
    return 0;
}
