(* C03 - comparison of the lazy post-selection model with PassiveSimulator (shots=None) on
   circuits whose joint distribution is rational.  Definitions only. *)
From Coq Require Import ZArith QArith Qabs List Bool Arith.
From PV Require Import Base.CasesLib C03.ExecModel C03.ProjectModel C03.ProjectReplay C03.PassiveModel.
Import ListNotations.

(* observed: None = the run raised the "postselected modes" exception; Some = the branches of
   non-zero weight (outcome, weight) *)
Definition lazy_case_ok (dist : pdist) (d : nat) (cutoff : Z) (Ls : list (list nat))
           (obs : option (list (vec * Q))) : bool :=
  match lazy_exec dist Ls (lazy_initial d cutoff), obs with
  | LErr, None => true
  | LOk bs, Some o =>
      let nz := filter (fun b => negb (Qeq_bool (lb_freq b) 0)) bs in
      Nat.eqb (length nz) (length o) &&
      forallb (fun e => existsb (fun b => vec_eqb (lb_out b) (fst e) && close (lb_freq b) (snd e)) nz) o
  | _, _ => false
  end.
