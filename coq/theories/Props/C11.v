(* C11 — Seeded runs are reproducible and independent of parallel scheduling.
   Only statements closed by [exact]; proofs live in C11/. *)
From Coq Require Import ZArith List Bool.
From Coq Require Import Ring.
From PV Require C04.PermModel C04.FinalProofs C11.NativeIndep.
From PV Require Import C11.GrayModel C11.GrayProofs C11.JobProofs C11.PermModel
  C11.RngModel C11.RngProofs.
Import ListNotations.
Open Scope Z_scope.

(* ---------------------------------------------------------------- (b) the Gray counter *)

(* the code computed by initialize (running parity of the Gray digits) is the reflected
   mixed-radix Gray code, for every list of limits and every offset in range *)
Theorem C11_initialize_is_gray_code : forall lims, lims_ok lims -> forall o,
  0 <= o < prodZ lims -> gray_from lims (chain_of lims o) = (gcode lims o, Z.odd o).
Proof. exact gray_from_spec. Qed.
Print Assumptions C11_initialize_is_gray_code.

(* offset |-> code is a bijection from [0, prod limits) onto the box prod [0, limit_i) *)
Theorem C11_gray_bijection_left : forall lims, lims_ok lims -> forall o,
  0 <= o < prodZ lims -> ungray lims (gcode lims o) = o.
Proof. exact ungray_gcode. Qed.
Print Assumptions C11_gray_bijection_left.

Theorem C11_gray_in_box : forall lims, lims_ok lims -> forall o,
  0 <= o < prodZ lims -> in_box lims (gcode lims o).
Proof. exact gcode_in_box. Qed.
Print Assumptions C11_gray_in_box.

Theorem C11_gray_bijection_right : forall lims, lims_ok lims -> forall g, in_box lims g ->
  0 <= ungray lims g < prodZ lims /\ gcode lims (ungray lims g) = g.
Proof. exact gcode_ungray. Qed.
Print Assumptions C11_gray_bijection_right.

(* consecutive codes differ in exactly one digit, by +1 or -1 *)
Theorem C11_gray_step : forall lims, lims_ok lims -> forall o, 0 <= o -> o + 1 < prodZ lims ->
  exists i d, (i < length lims)%nat /\ (d = 1 \/ d = -1) /\
    gcode lims (o + 1) = upd (gcode lims o) i (nth i (gcode lims o) 0 + d).
Proof. exact gray_step. Qed.
Print Assumptions C11_gray_step.

(* ::next (carry loop + scan with break) moves the counter of offset o to that of o+1 and
   reports the digit that moved with its old and new value *)
Theorem C11_next_spec : forall lims o om, lims_ok lims -> 0 <= o -> o + 1 < prodZ lims -> o < om ->
  exists i pv v,
    next (counter_at lims o om) = Some (counter_at lims (o + 1) om, i, pv, v) /\
    (i < length lims)%nat /\ pv = nth i (gcode lims o) 0 /\ (v = pv + 1 \/ v = pv - 1) /\
    gcode lims (o + 1) = upd (gcode lims o) i v.
Proof. exact next_spec. Qed.
Print Assumptions C11_next_spec.

(* initialize(o) = next^o(initialize(0)); [bits] is the width of the integer the offset is
   narrowed to in ::initialize: 32 in the code as it was (static_cast<int>), 64 after the repair *)
Theorem C11_gray_init_eq_iter : forall bits lims o, lims_ok lims -> 0 <= o < prodZ lims ->
  o <= int_max bits ->
  match construct bits lims 0 with Some c0 => next_n (Z.to_nat o) c0 | None => None end
  = construct bits lims o.
Proof. exact gray_init_eq_iter. Qed.
Print Assumptions C11_gray_init_eq_iter.

(* ---------------------------------------------------------------- (b) the job loop *)

(* for every job count K in 1..idx_max the job ranges, in job order, are 0,1,...,idx_max-1 *)
Theorem C11_jobs_partition : forall idx_max K, 1 <= K <= idx_max ->
  concat (map (job_range idx_max K) (zrange 0 (Z.to_nat K))) = zrange 0 (Z.to_nat idx_max).
Proof. exact jobs_partition. Qed.
Print Assumptions C11_jobs_partition.

Theorem C11_jobs_cover_once : forall idx_max K, 1 <= K <= idx_max ->
  forall o, 0 <= o < idx_max ->
  exists! j, 0 <= j < K /\ job_lo idx_max K j <= o <= job_hi idx_max K j.
Proof. exact jobs_cover_once. Qed.
Print Assumptions C11_jobs_cover_once.

(* the sum of the per-job accumulators is the same for every job count, in any monoid, for
   any per-job state that is a function of the current Gray code *)
Theorem C11_jobs_independent :
  forall (bits : Z) (A : Type) (zero : A) (add : A -> A -> A),
  (forall a b c, add a (add b c) = add (add a b) c) ->
  (forall a, add zero a = a) -> (forall a, add a zero = a) ->
  forall (St : Type) (s_init : list Z -> St) (s_step : St -> nat -> Z -> Z -> St)
         (s_addend : St -> A) (direct : list Z -> St) (lims : list Z),
  lims_ok lims ->
  (forall g, in_box lims g -> s_init g = direct g) ->
  (forall g i v, in_box lims g -> (i < length lims)%nat ->
     (v = nth i g 0 + 1 \/ v = nth i g 0 - 1) -> in_box lims (upd g i v) ->
     s_step (direct g) i (nth i g 0) v = direct (upd g i v)) ->
  forall K K', 1 <= K <= prodZ lims -> 1 <= K' <= prodZ lims -> prodZ lims - 1 <= int_max bits ->
  jobs_total bits A zero add St s_init s_step s_addend lims K =
  jobs_total bits A zero add St s_init s_step s_addend lims K'.
Proof. exact jobs_independent. Qed.
Print Assumptions C11_jobs_independent.

(* With the incremental state of the kernel proved equal to its direct definition (C04/, for
   C04's transcription of the same C++ over any commutative ring) the hypothesis on the state
   disappears: permanent_cpp and permanent_laplace_cpp return the same outcome for every
   thread count >= 1, and that outcome is 2^e * (the defining sum of the permanent). *)
Section Native.
Variable A : Type.
Variables (rO rI : A) (radd rmul rsub : A -> A -> A) (ropp : A -> A).
Hypothesis Rth : ring_theory rO rI radd rmul rsub ropp (@eq A).
Variable wb : Z.

Theorem C11_permanent_cpp_thread_independent : forall w t t' M rows cols,
  length M = length rows -> (1 <= t)%nat -> (1 <= t')%nat ->
  C04.FinalProofs.weight_n wb w (C04.PermModel.sum_nat rows) ->
  C04.PermModel.permanent_cpp A rO rI radd rmul ropp wb w t M rows cols =
  C04.PermModel.permanent_cpp A rO rI radd rmul ropp wb w t' M rows cols.
Proof. exact (C11.NativeIndep.permanent_cpp_thread_independent A rO rI radd rmul rsub ropp Rth wb). Qed.

Theorem C11_permanent_laplace_cpp_thread_independent : forall w t t' M rows cols,
  length M = length rows -> (1 <= t)%nat -> (1 <= t')%nat ->
  C04.FinalProofs.weight_n wb w (C04.PermModel.sum_nat rows) ->
  C04.PermModel.permanent_laplace_cpp A rO rI radd rmul ropp wb w t M rows cols =
  C04.PermModel.permanent_laplace_cpp A rO rI radd rmul ropp wb w t' M rows cols.
Proof. exact (C11.NativeIndep.permanent_laplace_cpp_thread_independent A rO rI radd rmul rsub ropp Rth wb). Qed.

Theorem C11_permanent_cpp_value_every_thread_count : forall w t M rows cols num e,
  length M = length rows -> Forall (fun row => length row = length cols) M ->
  (1 <= t)%nat -> C04.FinalProofs.weight_n wb w (C04.PermModel.sum_nat rows) ->
  C04.PermModel.permanent_cpp A rO rI radd rmul ropp wb w t M rows cols = C04.PermModel.Ok (num, e) ->
  forall t', (1 <= t')%nat ->
    C04.PermModel.permanent_cpp A rO rI radd rmul ropp wb w t' M rows cols
    = C04.PermModel.Ok
        (rmul (C04.PermModel.rpow A rI rmul (radd rI rI) e)
              (C04.PermModel.perm_def A rO rI radd rmul M rows cols), e).
Proof. exact (C11.NativeIndep.permanent_cpp_value_every_thread_count A rO rI radd rmul rsub ropp Rth wb). Qed.
End Native.
Print Assumptions C11_permanent_cpp_thread_independent.
Print Assumptions C11_permanent_laplace_cpp_thread_independent.
Print Assumptions C11_permanent_cpp_value_every_thread_count.

(* the job count the (repaired) code chooses is admissible for every answer of the
   hardware-concurrency query; for the code as it was the answer 0 is not *)
Theorem C11_concurrency_admissible : forall hc idx_max, 0 <= hc -> 1 <= idx_max ->
  1 <= concurrency true hc idx_max <= idx_max.
Proof. exact concurrency_admissible. Qed.
Print Assumptions C11_concurrency_admissible.

Theorem C11_concurrency_zero_refuted : exists hc idx_max, 0 <= hc /\ 1 <= idx_max /\
  ~ (1 <= concurrency false hc idx_max).
Proof. exact concurrency_zero_refuted. Qed.
Print Assumptions C11_concurrency_zero_refuted.

(* ---------------------------------------------------------------- (a) provenance *)

Theorem C11_dask_eq_sequential : forall seed n, shots_seq seed 0 n [] = shots_dask seed n.
Proof. exact dask_eq_sequential. Qed.
Print Assumptions C11_dask_eq_sequential.

Theorem C11_execute_dask_independent : forall v w s src prog shots,
  step v true w (Execute s src prog shots) = step v false w (Execute s src prog shots).
Proof. exact execute_dask_independent. Qed.
Print Assumptions C11_execute_dask_independent.

(* same seed => same result: for every starting world, every pair of intervening histories
   that leave the config and simulator under test alone, every source of randomness, every
   seed, dask on or off -- in the model of the repaired code *)
Theorem C11_same_seed_same_result : reproducible repaired (fun _ _ => True).
Proof. exact same_seed_same_result. Qed.
Print Assumptions C11_same_seed_same_result.

(* the result is a closed form that names only the seed, the source and the request *)
Theorem C11_fresh_run_closed_form : forall v dask w z h1 h2 src prog shots,
  wf w -> (v_zero_unseeded v = false \/ z <> 0) -> (v_global_py v = false \/ src <> PyDraw) ->
  scenario_ok v dask w z h1 h2 ->
  fresh_run v dask w z h1 h2 src prog shots = Some (expected_result z src prog shots).
Proof. exact fresh_run_closed_form. Qed.
Print Assumptions C11_fresh_run_closed_form.

(* the same when the seed arrives through the setter after construction
   (configs[c].seed_sequence = z), whatever the config was built with or used for before *)
Theorem C11_setter_run_closed_form : forall v dask w c z h1 h2 src prog shots,
  wf w -> (c < length (w_cfgs w))%nat -> (v_global_py v = false \/ src <> PyDraw) ->
  Forall (avoids c (length (w_sims (run v dask (step v dask w (SetSeed c z)) h1)))) h1 ->
  Forall (avoids c (length (w_sims (run v dask (step v dask w (SetSeed c z)) h1)))) h2 ->
  tail_run v dask (step v dask w (SetSeed c z)) c h1 h2 src prog shots
  = Some (expected_result z src prog shots).
Proof. exact setter_run_closed_form. Qed.
Print Assumptions C11_setter_run_closed_form.

(* every world reachable from process start is well formed, so the above applies after any
   prefix history *)
Theorem C11_wf_reachable : forall v dask h, wf (run v dask init_world h).
Proof. exact wf_reachable. Qed.
Print Assumptions C11_wf_reachable.

(* the tree as it was: simulators reading only per-shot and Config-owned streams are
   reproducible for every non-zero seed *)
Theorem C11_same_seed_same_result_owned_streams :
  reproducible current (fun z src => z <> 0 /\ src <> PyDraw).
Proof. exact same_seed_same_result_owned_streams. Qed.
Print Assumptions C11_same_seed_same_result_owned_streams.

(* different seeds read different streams *)
Theorem C11_diff_seed_diff_result : forall dask dask' w w' z z' h1 h2 h1' h2' src prog shots,
  z <> z' -> wf w -> wf w' ->
  scenario_ok repaired dask w z h1 h2 -> scenario_ok repaired dask' w' z' h1' h2' ->
  fresh_run repaired dask w z h1 h2 src prog shots <>
  fresh_run repaired dask' w' z' h1' h2' src prog shots.
Proof. exact diff_seed_diff_result. Qed.
Print Assumptions C11_diff_seed_diff_result.

(* the tree as it was *)
Theorem C11_seed_zero_refuted : ~ reproducible current (fun z src => src = PerShot).
Proof. exact seed_zero_refuted. Qed.
Print Assumptions C11_seed_zero_refuted.

Theorem C11_global_draw_refuted : ~ reproducible current (fun z src => z <> 0 /\ src = PyDraw).
Proof. exact global_draw_refuted. Qed.
Print Assumptions C11_global_draw_refuted.

Theorem C11_other_config_refuted : ~ reproducible current (fun z src => z <> 0 /\ src = PyDraw).
Proof. exact other_config_refuted. Qed.
Print Assumptions C11_other_config_refuted.

(* ---------------------------------------------------------------- non-vacuity *)
Example C11_gray_example : map (gcode [3; 2]) (zrange 0 6) =
  [[0; 0]; [1; 0]; [2; 0]; [2; 1]; [1; 1]; [0; 1]].
Proof. reflexivity. Qed.

Example C11_perm_example :
  map (fun hc => perm_jobs_gi true hc [[(1,0);(2,0)];[(3,0);(4,0)]] [1;1] [1;1]) [0;1;2;16]
  = [Some (20, 0); Some (20, 0); Some (20, 0); Some (20, 0)].
Proof. vm_compute. reflexivity. Qed.

(* the static_cast<int> of the initial offset: with 32 bits no counter beyond 2^31 - 1
   (hypothesis o <= int_max bits of C11_gray_init_eq_iter / C11_jobs_independent); with the
   64-bit offset of the repaired code the same offset is fine *)
Example C11_offset_cast_refuted :
  let lims := repeat 2 33 in
  0 <= 2147483653 < prodZ lims /\ construct 32 lims 2147483653 = None /\
  construct 32 lims 2147483647 <> None /\ construct 64 lims 2147483653 <> None.
Proof. vm_compute. repeat split; congruence. Qed.

(* without clipping the job count to idx_max the empty jobs would still add their initial
   addend: counting addends with K = 3 jobs on a range of 2 offsets gives 4 *)
Example C11_clip_needed :
  jobs_total 64 Z 0 Z.add unit (fun _ => tt) (fun s _ _ _ => s) (fun _ => 1) [2] 3 = Some 4 /\
  jobs_total 64 Z 0 Z.add unit (fun _ => tt) (fun s _ _ _ => s) (fun _ => 1) [2] 2 = Some 2.
Proof. vm_compute. split; reflexivity. Qed.
