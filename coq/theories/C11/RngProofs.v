(* C11 (a) — theorems about the provenance model (RngModel.v). *)
From Coq Require Import ZArith List Bool Lia ZifyBool.
From PV Require Import C11.RngModel.
Import ListNotations.
Open Scope Z_scope.

(* ------------------------------------------------------------------ dask = sequential *)
Lemma shots_seq_spec seed : forall n idx acc,
  shots_seq seed idx n acc =
  acc ++ map (fun i => seed_plus seed (idx + Z.of_nat i)) (seq 0 n).
Proof.
  induction n as [|n IH]; intros idx acc; simpl; [rewrite app_nil_r; reflexivity|].
  rewrite IH, <- app_assoc. simpl. f_equal. f_equal; [f_equal; lia|].
  rewrite <- seq_shift, map_map. apply map_ext. intros i. f_equal. lia.
Qed.

(* both branches of _generate_samples / _get_particle_number_measurement_samples use the
   same per-shot seeds, in the same order, for every seed and every number of shots *)
Theorem dask_eq_sequential seed n : shots_seq seed 0 n [] = shots_dask seed n.
Proof. rewrite shots_seq_spec. reflexivity. Qed.

Theorem execute_dask_independent v w s src prog shots :
  step v true w (Execute s src prog shots) = step v false w (Execute s src prog shots).
Proof.
  simpl. destruct (nth_error (w_sims w) s); auto. destruct src; auto.
  rewrite dask_eq_sequential. reflexivity.
Qed.

(* ------------------------------------------------------------------ well-formed worlds *)
Definition refs_below (n : nat) (cfg : config) : Prop := (cf_np cfg < n)%nat /\ (cf_py cfg < n)%nat.
Definition wf (w : world) : Prop :=
  Forall (refs_below (length (w_cells w))) (w_cfgs w) /\
  Forall (refs_below (length (w_cells w))) (w_sims w).

(* the scenario: intervening operations leave the config and the simulator under test alone *)
Definition scenario_ok (v : variant) (dask : bool) (w : world) (z : Z) (h1 h2 : list op) : Prop :=
  let c := length (w_cfgs w) in
  let w1 := run v dask (step v dask w (NewConfig (Some z))) h1 in
  let s := length (w_sims w1) in
  Forall (avoids c s) h1 /\ Forall (avoids c s) h2.

(* the property, for a variant of the code and a class of (seed, source) *)
Definition reproducible (v : variant) (class : Z -> source -> Prop) : Prop :=
  forall dask dask' w w' z h1 h2 h1' h2' src prog shots,
    class z src -> wf w -> wf w' ->
    scenario_ok v dask w z h1 h2 -> scenario_ok v dask' w' z h1' h2' ->
    fresh_run v dask w z h1 h2 src prog shots <> None /\
    fresh_run v dask w z h1 h2 src prog shots = fresh_run v dask' w' z h1' h2' src prog shots.

(* ------------------------------------------------------------------ refutations (tree as it was) *)
Lemma wf_init : wf init_world.
Proof. split; constructor. Qed.

(* seed 0 is treated as "no seed": two fresh simulators with seed_sequence=0 differ *)
Theorem seed_zero_refuted : ~ reproducible current (fun z src => src = PerShot).
Proof.
  intros H.
  set (w' := run current false init_world [NewConfig (Some 0)]).
  destruct (H false false init_world w' 0 [] [] [] [] PerShot 0%nat 2%nat eq_refl wf_init) as [_ E].
  - split; repeat constructor.
  - split; constructor.
  - split; constructor.
  - vm_compute in E. discriminate.
Qed.

(* a draw from the process-global random module between construction and execution changes
   a Fock particle-number measurement *)
Theorem global_draw_refuted : ~ reproducible current (fun z src => z <> 0 /\ src = PyDraw).
Proof.
  intros H.
  destruct (H false false init_world init_world 5 [] [] [] [GlobalDraw (7%nat, 7%nat)]
              PyDraw 0%nat 2%nat) as [_ E]; try (split; repeat constructor; fail).
  - split; [lia|reflexivity].
  - vm_compute in E. discriminate.
Qed.

(* creating any other Config (or taking the repr of one) in between reseeds the stream *)
Theorem other_config_refuted : ~ reproducible current (fun z src => z <> 0 /\ src = PyDraw).
Proof.
  intros H.
  destruct (H false false init_world init_world 5 [] [] [] [ReprConfig]
              PyDraw 0%nat 2%nat) as [_ E]; try (split; repeat constructor; fail).
  - split; [lia|reflexivity].
  - vm_compute in E. discriminate.
Qed.

(* ------------------------------------------------------------------ different seeds *)

(* ------------------------------------------------------------------ list facts *)
Lemma nth_set_nth_neq {A} (d : A) : forall l i j x, i <> j -> nth i (set_nth l j x) d = nth i l d.
Proof.
  induction l as [|a l IH]; intros i j x H; destruct j; destruct i; simpl; auto; try lia.
Qed.

Lemma length_set_nth {A} : forall (l : list A) j x, length (set_nth l j x) = length l.
Proof. induction l; destruct j; simpl; intros; auto. Qed.

Lemma nth_error_snoc_lt {A} (l : list A) x j y :
  nth_error (l ++ [x]) j = Some y -> (j < length l)%nat -> nth_error l j = Some y.
Proof. intros H Hj. rewrite nth_error_app1 in H; auto. Qed.

Lemma nth_error_snoc_cases {A} (l : list A) x j y :
  nth_error (l ++ [x]) j = Some y ->
  ((j < length l)%nat /\ nth_error l j = Some y) \/ (j = length l /\ y = x).
Proof.
  intros H. destruct (Nat.lt_ge_cases j (length l)) as [Hlt|Hge].
  - left. split; auto. rewrite nth_error_app1 in H; auto.
  - right. rewrite nth_error_app2 in H by lia.
    destruct (j - length l)%nat eqn:E; simpl in H.
    + inversion H. split; [lia|auto].
    + destruct n; discriminate.
Qed.

Lemma nth_error_set_nth_neq {A} : forall (l : list A) i j x, i <> j ->
  nth_error (set_nth l j x) i = nth_error l i.
Proof. induction l as [|a l IH]; intros i j x H; destruct j; destruct i; simpl; auto; try lia. Qed.

Lemma nth_error_set_nth_eq {A} : forall (l : list A) j x y,
  nth_error (set_nth l j x) j = Some y -> y = x.
Proof.
  induction l as [|a l IH]; intros j x y H; destruct j; simpl in *; try discriminate.
  - inversion H. reflexivity.
  - eapply IH; eauto.
Qed.

Lemma Forall_set_nth {A} (P : A -> Prop) : forall l j x, Forall P l -> P x -> Forall P (set_nth l j x).
Proof.
  induction l as [|a l IH]; intros j x Hl Hx; destruct j; simpl; auto; inversion Hl; subst;
    constructor; auto.
Qed.

(* ------------------------------------------------------------------ make_config *)
Lemma make_config_shape v w seed :
  exists sv glob fr,
    make_config v w seed =
    (mkW glob (w_cells w ++ [fresh_gen Np sv; fresh_gen Py sv]) (w_cfgs w) (w_sims w) fr (w_out w),
     mkCfg sv (length (w_cells w)) (S (length (w_cells w)))).
Proof. unfold make_config. eexists _, _, _. reflexivity. Qed.

Lemma make_config_seeded v w z : v_zero_unseeded v = false \/ z <> 0 ->
  exists glob,
    make_config v w (Some z) =
    (mkW glob (w_cells w ++ [fresh_gen Np (Given z); fresh_gen Py (Given z)])
         (w_cfgs w) (w_sims w) (w_fresh w) (w_out w),
     mkCfg (Given z) (length (w_cells w)) (S (length (w_cells w)))).
Proof.
  intros H. unfold make_config.
  assert (E : v_zero_unseeded v && (z =? 0) = false).
  { destruct H as [H|H]; [rewrite H; reflexivity|]. destruct (v_zero_unseeded v); simpl; lia. }
  rewrite E. eexists. reflexivity.
Qed.

(* ------------------------------------------------------------------ the invariant *)
Local Arguments make_config : simpl never.

Section Fresh.
  Variable v : variant.
  Variable dask : bool.
  Variable z : Z.
  Variable n : nat.       (* cell of the numpy generator of the config under test; S n: python *)
  Variable c : nat.       (* index of the config under test *)
  Let cfgc := mkCfg (Given z) n (S n).

  Definition refs_avoid (cfg : config) : Prop :=
    cf_np cfg <> n /\ cf_np cfg <> S n /\ cf_py cfg <> n /\ cf_py cfg <> S n.

  Definition Inv (os : option nat) (w : world) : Prop :=
    nth_error (w_cfgs w) c = Some cfgc /\
    nth n (w_cells w) dummy_gen = fresh_gen Np (Given z) /\
    nth (S n) (w_cells w) dummy_gen = fresh_gen Py (Given z) /\
    (S n < length (w_cells w))%nat /\
    (forall j cfg, nth_error (w_cfgs w) j = Some cfg -> j <> c -> refs_avoid cfg) /\
    (forall j cfg, nth_error (w_sims w) j = Some cfg -> os <> Some j -> refs_avoid cfg) /\
    (forall s, os = Some s -> nth_error (w_sims w) s = Some cfgc).

  Definition ok_op (os : option nat) (o : op) : Prop :=
    match o with
    | CopyConfig c' => c' <> c
    | NewSimulator (Some c') => c' <> c
    | Execute s' _ _ _ => os <> Some s'
    | SetSeed c' _ => c' <> c
    | _ => True
    end.

  Ltac inv_split :=
    unfold Inv; simpl; split; [|split; [|split; [|split; [|split; [|split]]]]].

  Lemma new_refs_avoid w : (S n < length (w_cells w))%nat ->
    forall sv, refs_avoid (mkCfg sv (length (w_cells w)) (S (length (w_cells w)))).
  Proof. intros H sv. unfold refs_avoid. simpl. lia. Qed.

  (* appending two cells keeps the cells under test *)
  Lemma cells_app w g1 g2 : (S n < length (w_cells w))%nat ->
    nth n (w_cells w ++ [g1; g2]) dummy_gen = nth n (w_cells w) dummy_gen /\
    nth (S n) (w_cells w ++ [g1; g2]) dummy_gen = nth (S n) (w_cells w) dummy_gen /\
    (S n < length (w_cells w ++ [g1; g2]))%nat.
  Proof. intros H. rewrite !app_nth1 by lia. rewrite app_length. simpl. repeat split; lia. Qed.

  Lemma inv_step os w o : Inv os w -> ok_op os o -> Inv os (step v dask w o).
  Proof.
    intros (Hc & Hn & Hp & Hlen & Hcfgs & Hsims & Hs) Hok.
    assert (Hclt : (c < length (w_cfgs w))%nat) by (apply nth_error_Some; rewrite Hc; discriminate).
    assert (Hsnoc : forall s x, os = Some s -> nth_error (w_sims w ++ [x]) s = Some cfgc).
    { intros s x Es. specialize (Hs s Es). rewrite nth_error_app1; auto.
      apply nth_error_Some. rewrite Hs. discriminate. }
    destruct o as [seed|c'|[c'|]|s' src prog shots|r| |c' z']; simpl in Hok; unfold step.
    - (* NewConfig *)
      destruct (make_config_shape v w seed) as (sv & glob & fr & E). rewrite E.
      destruct (cells_app w (fresh_gen Np sv) (fresh_gen Py sv) Hlen) as (A1 & A2 & A3).
      inv_split.
      + rewrite nth_error_app1; auto.
      + rewrite A1; auto.
      + rewrite A2; auto.
      + exact A3.
      + intros j cfg Hj Hjc. apply nth_error_snoc_cases in Hj. destruct Hj as [[_ Hj]|[_ Hj]].
        * eapply Hcfgs; eauto.
        * subst cfg. apply new_refs_avoid; auto.
      + exact Hsims.
      + exact Hs.
    - (* CopyConfig *)
      destruct (nth_error (w_cfgs w) c') as [cfg'|] eqn:E; [|inv_split; auto].
      inv_split; auto.
      + rewrite nth_error_app1; auto.
      + intros j cfg Hj Hjc. apply nth_error_snoc_cases in Hj. destruct Hj as [[_ Hj]|[_ Hj]].
        * eapply Hcfgs; eauto.
        * subst cfg. eapply Hcfgs; eauto.
    - (* NewSimulator (Some c') *)
      destruct (nth_error (w_cfgs w) c') as [cfg'|] eqn:E; [|inv_split; auto].
      inv_split; auto.
      intros j cfg Hj Hjs. apply nth_error_snoc_cases in Hj. destruct Hj as [[_ Hj]|[_ Hj]].
      * eapply Hsims; eauto.
      * subst cfg. eapply Hcfgs; eauto.
    - (* NewSimulator None *)
      destruct (make_config_shape v w None) as (sv & glob & fr & E). rewrite E.
      destruct (cells_app w (fresh_gen Np sv) (fresh_gen Py sv) Hlen) as (A1 & A2 & A3).
      inv_split; auto.
      + rewrite A1; auto.
      + rewrite A2; auto.
      + intros j cfg Hj Hjs. apply nth_error_snoc_cases in Hj. destruct Hj as [[_ Hj]|[_ Hj]].
        * eapply Hsims; eauto.
        * subst cfg. apply new_refs_avoid; auto.
    - (* Execute *)
      destruct (nth_error (w_sims w) s') as [cfg|] eqn:E; [|inv_split; auto].
      destruct (Hsims s' cfg E Hok) as (B1 & B2 & B3 & B4).
      destruct src.
      + inv_split; auto.
      + inv_split; auto; rewrite ?nth_set_nth_neq, ?length_set_nth by auto; auto.
      + destruct (v_global_py v).
        * inv_split; auto.
        * inv_split; auto; rewrite ?nth_set_nth_neq, ?length_set_nth by auto; auto.
    - (* GlobalDraw *)
      inv_split; auto.
    - (* ReprConfig *)
      destruct (make_config_shape v w None) as (sv & glob & fr & E). rewrite E.
      destruct (cells_app w (fresh_gen Np sv) (fresh_gen Py sv) Hlen) as (A1 & A2 & A3).
      inv_split; auto.
      + rewrite A1; auto.
      + rewrite A2; auto.
    - (* SetSeed *)
      destruct (nth_error (w_cfgs w) c') as [cfg'|] eqn:E; [|inv_split; auto].
      destruct (cells_app w (fresh_gen Np (Given z')) (fresh_gen Py (Given z')) Hlen)
        as (A1 & A2 & A3).
      inv_split; auto.
      + rewrite nth_error_set_nth_neq; auto.
      + rewrite A1; auto.
      + rewrite A2; auto.
      + intros j cfg Hj Hjc. destruct (Nat.eq_dec j c') as [Ej|Ej].
        * subst j. apply nth_error_set_nth_eq in Hj. subst cfg. apply new_refs_avoid; auto.
        * rewrite nth_error_set_nth_neq in Hj by auto. eapply Hcfgs; eauto.
  Qed.

  Lemma inv_run os : forall h w, Inv os w -> Forall (ok_op os) h -> Inv os (run v dask w h).
  Proof.
    induction h as [|o h IH]; intros w Hi Hf; simpl; auto.
    inversion Hf; subst. apply IH; auto. apply inv_step; auto.
  Qed.
End Fresh.

Ltac inv_split :=
  unfold Inv; simpl; split; [|split; [|split; [|split; [|split; [|split]]]]].

(* the result every such run returns: it names only the seed, the source and the request *)
Definition expected_result (z : Z) (src : source) (prog shots : nat) : result :=
  mkRes (match src with
         | PerShot => DShots (shots_dask (Given z) shots) (prog, shots)
         | OwnedNp => DGen (Np, Given z) [] (prog, shots)
         | PyDraw => DGen (Py, Given z) [] (prog, shots)
         end) (Given z).

Lemma refs_below_avoid n cfg : refs_below n cfg -> refs_avoid n cfg.
Proof. unfold refs_below, refs_avoid. lia. Qed.

(* what follows the creation (or re-seeding) of the config under test, from the world w0 *)
Definition tail_run (v : variant) (dask : bool) (w0 : world) (c : nat) (h1 h2 : list op)
           (src : source) (prog shots : nat) : option result :=
  let w1 := run v dask w0 h1 in
  let s := length (w_sims w1) in
  let w2 := run v dask (step v dask w1 (NewSimulator (Some c))) h2 in
  let w3 := step v dask w2 (Execute s src prog shots) in
  nth_error (w_out w3) (length (w_out w2)).

Lemma fresh_tail v dask z n c w0 h1 h2 src prog shots :
  Inv z n c None w0 -> (v_global_py v = false \/ src <> PyDraw) ->
  Forall (avoids c (length (w_sims (run v dask w0 h1)))) h1 ->
  Forall (avoids c (length (w_sims (run v dask w0 h1)))) h2 ->
  tail_run v dask w0 c h1 h2 src prog shots = Some (expected_result z src prog shots).
Proof.
  intros I0 Hsrc Hh1 Hh2. unfold tail_run.
  set (w1 := run v dask w0 h1) in *.
  set (s := length (w_sims w1)) in *.
  assert (I1 : Inv z n c None w1).
  { apply inv_run; auto. eapply Forall_impl; [|exact Hh1]. intros o Ho.
    destruct o as [| |[|]| | | |]; simpl in *; auto. discriminate. }
  set (w1' := step v dask w1 (NewSimulator (Some c))).
  assert (I2 : Inv z n c (Some s) w1').
  { destruct I1 as (Hc & Hn & Hp & Hlen & Hcfgs & Hsims & Hs).
    unfold w1', step. rewrite Hc. inv_split; auto.
    - intros j cfg Hj Hjs. apply nth_error_snoc_cases in Hj. destruct Hj as [[_ Hj]|[Hj _]].
      + eapply Hsims; eauto. discriminate.
      + subst j. exfalso. apply Hjs. reflexivity.
    - intros s0 Es. inversion Es; subst s0.
      rewrite nth_error_app2 by (unfold s; lia). unfold s. rewrite Nat.sub_diag. reflexivity. }
  set (w2 := run v dask w1' h2).
  assert (I3 : Inv z n c (Some s) w2).
  { apply inv_run; auto. eapply Forall_impl; [|exact Hh2]. intros o Ho.
    destruct o as [| |[|]| | | |]; simpl in *; auto. intros E. inversion E. auto. }
  destruct I3 as (Hc & Hn & Hp & Hlen & Hcfgs & Hsims & Hs).
  unfold step. rewrite (Hs s eq_refl).
  destruct src; simpl.
  - rewrite nth_error_app2 by lia. rewrite Nat.sub_diag. simpl.
    unfold expected_result. destruct dask; [reflexivity|]. rewrite dask_eq_sequential. reflexivity.
  - rewrite nth_error_app2 by lia. rewrite Nat.sub_diag. simpl. rewrite Hn. reflexivity.
  - destruct Hsrc as [Hg|Hg]; [|congruence]. rewrite Hg. simpl.
    rewrite nth_error_app2 by lia. rewrite Nat.sub_diag. simpl. rewrite Hp. reflexivity.
Qed.

Theorem fresh_run_closed_form v dask w z h1 h2 src prog shots :
  wf w -> (v_zero_unseeded v = false \/ z <> 0) -> (v_global_py v = false \/ src <> PyDraw) ->
  scenario_ok v dask w z h1 h2 ->
  fresh_run v dask w z h1 h2 src prog shots = Some (expected_result z src prog shots).
Proof.
  intros [Wc Ws] Hseed Hsrc [Hh1 Hh2].
  change (fresh_run v dask w z h1 h2 src prog shots) with
    (tail_run v dask (step v dask w (NewConfig (Some z))) (length (w_cfgs w)) h1 h2 src prog shots).
  set (c := length (w_cfgs w)) in *. set (n := length (w_cells w)).
  apply (fresh_tail v dask z n c); auto.
  unfold step. destruct (make_config_seeded v w z Hseed) as [glob E]. rewrite E.
  inv_split; fold n.
  - rewrite nth_error_app2 by (unfold c; lia). unfold c. rewrite Nat.sub_diag. reflexivity.
  - rewrite app_nth2 by (unfold n; lia). unfold n. rewrite Nat.sub_diag. reflexivity.
  - rewrite app_nth2 by (unfold n; lia). unfold n.
    replace (S (length (w_cells w)) - length (w_cells w))%nat with 1%nat by lia. reflexivity.
  - rewrite app_length. simpl. unfold n. lia.
  - intros j cfg Hj Hjc. apply nth_error_snoc_cases in Hj. destruct Hj as [[_ Hj]|[Hj _]].
    + apply refs_below_avoid. rewrite Forall_forall in Wc. apply nth_error_In in Hj.
      specialize (Wc _ Hj). unfold refs_below in *. unfold n. lia.
    + unfold c in Hjc. lia.
  - intros j cfg Hj _. apply refs_below_avoid. rewrite Forall_forall in Ws.
    apply nth_error_In in Hj. specialize (Ws _ Hj). unfold refs_below in *. unfold n. lia.
  - intros s0 Es. discriminate.
Qed.

(* the seed arrives through the setter after construction (configs[c].seed_sequence = z),
   whatever the config was constructed with and whatever was done with it before: the next
   fresh simulator built from it returns the same closed form *)
Theorem setter_run_closed_form v dask w c z h1 h2 src prog shots :
  wf w -> (c < length (w_cfgs w))%nat -> (v_global_py v = false \/ src <> PyDraw) ->
  Forall (avoids c (length (w_sims (run v dask (step v dask w (SetSeed c z)) h1)))) h1 ->
  Forall (avoids c (length (w_sims (run v dask (step v dask w (SetSeed c z)) h1)))) h2 ->
  tail_run v dask (step v dask w (SetSeed c z)) c h1 h2 src prog shots
  = Some (expected_result z src prog shots).
Proof.
  intros [Wc Ws] Hc Hsrc Hh1 Hh2.
  set (n := length (w_cells w)).
  apply (fresh_tail v dask z n c); auto.
  unfold step. destruct (nth_error (w_cfgs w) c) as [cfg0|] eqn:E0.
  2:{ apply nth_error_None in E0. lia. }
  inv_split; fold n.
  - clear -Hc. revert c Hc. induction (w_cfgs w) as [|a l IH]; intros c Hc; simpl in *; [lia|].
    destruct c; simpl; auto. apply IH. lia.
  - rewrite app_nth2 by (unfold n; lia). unfold n. rewrite Nat.sub_diag. reflexivity.
  - rewrite app_nth2 by (unfold n; lia). unfold n.
    replace (S (length (w_cells w)) - length (w_cells w))%nat with 1%nat by lia. reflexivity.
  - rewrite app_length. simpl. unfold n. lia.
  - intros j cfg Hj Hjc. rewrite nth_error_set_nth_neq in Hj by auto.
    apply refs_below_avoid. rewrite Forall_forall in Wc. apply nth_error_In in Hj.
    specialize (Wc _ Hj). unfold refs_below in *. unfold n. lia.
  - intros j cfg Hj _. apply refs_below_avoid. rewrite Forall_forall in Ws.
    apply nth_error_In in Hj. specialize (Ws _ Hj). unfold refs_below in *. unfold n. lia.
  - intros s0 Es. discriminate.
Qed.

(* same seed => same result, for every history, every starting world, dask on or off:
   the repaired code, all seeds and all sources *)
Theorem same_seed_same_result : reproducible repaired (fun _ _ => True).
Proof.
  intros dask dask' w w' z h1 h2 h1' h2' src prog shots _ Hw Hw' Hs Hs'.
  rewrite (fresh_run_closed_form repaired dask w z h1 h2 src prog shots Hw
             (or_introl eq_refl) (or_introl eq_refl) Hs).
  rewrite (fresh_run_closed_form repaired dask' w' z h1' h2' src prog shots Hw'
             (or_introl eq_refl) (or_introl eq_refl) Hs').
  split; [discriminate|reflexivity].
Qed.

(* the tree as it was: the simulators that read only per-shot and Config-owned streams are
   reproducible for every non-zero seed *)
Theorem same_seed_same_result_owned_streams :
  reproducible current (fun z src => z <> 0 /\ src <> PyDraw).
Proof.
  intros dask dask' w w' z h1 h2 h1' h2' src prog shots [Hz Hsrc] Hw Hw' Hs Hs'.
  rewrite (fresh_run_closed_form current dask w z h1 h2 src prog shots Hw
             (or_intror Hz) (or_intror Hsrc) Hs).
  rewrite (fresh_run_closed_form current dask' w' z h1' h2' src prog shots Hw'
             (or_intror Hz) (or_intror Hsrc) Hs').
  split; [discriminate|reflexivity].
Qed.

(* different seeds => different results (at the symbolic level: a different stream is read) *)
Theorem diff_seed_diff_result dask dask' w w' z z' h1 h2 h1' h2' src prog shots :
  z <> z' -> wf w -> wf w' ->
  scenario_ok repaired dask w z h1 h2 -> scenario_ok repaired dask' w' z' h1' h2' ->
  fresh_run repaired dask w z h1 h2 src prog shots <>
  fresh_run repaired dask' w' z' h1' h2' src prog shots.
Proof.
  intros Hz Hw Hw' Hs Hs'.
  rewrite (fresh_run_closed_form repaired dask w z h1 h2 src prog shots Hw
             (or_introl eq_refl) (or_introl eq_refl) Hs).
  rewrite (fresh_run_closed_form repaired dask' w' z' h1' h2' src prog shots Hw'
             (or_introl eq_refl) (or_introl eq_refl) Hs').
  unfold expected_result. intros E. inversion E. congruence.
Qed.

(* reachable worlds are well formed, so the theorems apply after any prefix history *)
Lemma wf_step v dask w o : wf w -> wf (step v dask w o).
Proof.
  intros [Wc Ws]. unfold wf.
  assert (Hmono : forall m k cfg, (m <= k)%nat -> refs_below m cfg -> refs_below k cfg)
    by (unfold refs_below; intros; lia).
  assert (Hgrow : forall l g1 g2, Forall (refs_below (length (w_cells w))) l ->
            Forall (refs_below (length (w_cells w ++ [g1; g2]))) l).
  { intros l g1 g2 H. eapply Forall_impl; [|exact H]. intros cfg. apply Hmono.
    rewrite app_length. lia. }
  assert (Hnew : forall sv g1 g2, refs_below (length (w_cells w ++ [g1; g2]))
            (mkCfg sv (length (w_cells w)) (S (length (w_cells w))))).
  { intros. unfold refs_below. rewrite app_length. simpl. lia. }
  destruct o as [seed|c'|[c'|]|s' src prog shots|r| |c' z']; unfold step.
  - destruct (make_config_shape v w seed) as (sv & glob & fr & E). rewrite E. simpl.
    split; [apply Forall_app; split; [apply Hgrow; auto|constructor; auto]|apply Hgrow; auto].
  - destruct (nth_error (w_cfgs w) c') as [cfg|] eqn:E; simpl; [|split; auto].
    split; auto. apply Forall_app. split; auto. constructor; auto.
    rewrite Forall_forall in Wc. apply Wc. eapply nth_error_In; eauto.
  - destruct (nth_error (w_cfgs w) c') as [cfg|] eqn:E; simpl; [|split; auto].
    split; auto. apply Forall_app. split; auto. constructor; auto.
    rewrite Forall_forall in Wc. apply Wc. eapply nth_error_In; eauto.
  - destruct (make_config_shape v w None) as (sv & glob & fr & E). rewrite E. simpl.
    split; [apply Hgrow; auto|apply Forall_app; split; [apply Hgrow; auto|constructor; auto]].
  - destruct (nth_error (w_sims w) s') as [cfg|] eqn:E; [|split; auto].
    destruct src; simpl; try rewrite length_set_nth; try (split; auto; fail).
    destruct (v_global_py v); simpl; try rewrite length_set_nth; split; auto.
  - split; auto.
  - destruct (make_config_shape v w None) as (sv & glob & fr & E). rewrite E. simpl.
    split; apply Hgrow; auto.
  - destruct (nth_error (w_cfgs w) c') as [cfg|] eqn:E; simpl; [|split; auto].
    split; [|apply Hgrow; auto]. apply Forall_set_nth; [apply Hgrow; auto|apply Hnew].
Qed.

Theorem wf_reachable v dask h : wf (run v dask init_world h).
Proof.
  assert (G : forall h w, wf w -> wf (run v dask w h)).
  { induction h0 as [|o h0 IH]; intros w Hw; simpl; auto. apply IH. apply wf_step. auto. }
  apply G. apply wf_init.
Qed.
