(* C03 - the passive simulator's lazy post-selection bookkeeping as seen from the executor,
   for shots=None (DESIGN tier B):
     _simulators/passive/state.py:_set_postselection, _copy_with_postselection,
       _get_active_modes, _get_postselected_modes, get_marginal_fock_probabilities (the guard
       and the arguments it forwards), fock_probabilities_map of a post-selected state
     _simulators/passive/simulation_steps.py:particle_number_measurement (shots is None)
     api/simulator.py: remapping of labels to register positions, frequency multiplication.
   The physics is a given joint distribution over the occupation vectors of ALL modes
   (finitely supported list); the state only records which modes are post-selected to what.
   Definitions only. *)
From Coq Require Import ZArith QArith List Bool Arith.
From PV Require Import C03.ExecModel C03.ProjectModel.
Import ListNotations.
Open Scope nat_scope.

Definition pdist := list (vec * Q).

Record lazy_state := mkLS {
  ls_total : nat;                    (* total_number_of_modes = len(interferometer) *)
  ls_posts : list (nat * nat);       (* _postselections: actual mode -> photon count *)
  ls_cutoff : Z }.                   (* config.cutoff *)

(* _get_postselected_modes / _get_active_modes *)
Definition post_modes (st : lazy_state) : list nat := map fst (ls_posts st).
Definition lazy_active (st : lazy_state) : list nat :=
  filter (fun i => negb (memb i (post_modes st))) (seq 0 (ls_total st)).

(* _set_postselection(modes, photon_counts): the modes it receives are REGISTER POSITIONS and
   are mapped to the state's own labels through _get_active_modes; cutoff -= sum(counts) *)
Definition set_postselection (st : lazy_state) (positions : list nat) (counts : vec) : lazy_state :=
  let actual := map (fun p => nth p (lazy_active st) 0) positions in
  mkLS (ls_total st) (ls_posts st ++ combine actual counts)
       (ls_cutoff st - Z.of_nat (fold_right Nat.add 0 counts)).

Definition satisfies (posts : list (nat * nat)) (v : vec) : bool :=
  forallb (fun mc => Nat.eqb (nth (fst mc) v 0) (snd mc)) posts.

(* probability that the post-selections hold and the modes [labels] show s: what
   _math get_marginal_fock_probabilities computes from (postselected_modes, photons,
   marginal_modes) -- joint with the post-selection, NOT conditional on it *)
Definition joint_prob (dist : pdist) (posts : list (nat * nat)) (labels : list nat) (s : vec) : Q :=
  fold_right (fun vw acc => (if satisfies posts (fst vw) && vec_eqb (select labels (fst vw)) s
                             then snd vw else 0) + acc)%Q 0%Q dist.

Definition outcomes_of (dist : pdist) (posts : list (nat * nat)) (labels : list nat) : list vec :=
  vnodup (map (fun vw => select labels (fst vw))
              (filter (fun vw => satisfies posts (fst vw) && negb (Qeq_bool (snd vw) 0)) dist)).

Inductive lres (X : Type) := LOk (x : X) | LErr.   (* LErr: PiquassoException "Marginal
   probabilities cannot be calculated for postselected modes." *)
Arguments LOk {X} x.
Arguments LErr {X}.

(* PassiveState.get_marginal_fock_probabilities(modes): the guard compares the modes it was
   given with the post-selected LABELS and forwards them unchanged as marginal_modes;
   state.fock_probabilities_map when all remaining modes are measured (keys in register order) *)
Definition lazy_probabilities (dist : pdist) (st : lazy_state) (modes : list nat)
  : lres (list (vec * Q)) :=
  let d := length (lazy_active st) in
  let marginal := negb (forallb (fun m => memb m (seq 0 d)) modes && forallb (fun i => memb i modes) (seq 0 d)) in
  if marginal then
    if existsb (fun m => memb m (post_modes st)) modes then LErr
    else LOk (map (fun s => (s, joint_prob dist (ls_posts st) modes s))
                  (outcomes_of dist (ls_posts st) modes))
  else
    (* fock_probabilities_map is keyed by the occupation r of the register in order; the
       outcome is tuple(r[mode] for mode in modes) *)
    LOk (map (fun r => (select modes r, joint_prob dist (ls_posts st) (lazy_active st) r))
             (outcomes_of dist (ls_posts st) (lazy_active st))).

Record lbranch := mkLB { lb_state : lazy_state; lb_out : vec; lb_freq : Q; lb_reg : list nat }.

(* particle_number_measurement with shots=None on one branch + the executor's update *)
Definition lazy_measure_branch (dist : pdist) (L : list nat) (b : lbranch) : lres (list lbranch) :=
  let positions := remap_modes (lb_reg b) L in
  match lazy_probabilities dist (lb_state b) positions with
  | LErr => LErr
  | LOk ps =>
      LOk (map (fun sp => mkLB (set_postselection (lb_state b) positions (fst sp))
                               (lb_out b ++ fst sp) (snd sp * lb_freq b)%Q
                               (delete_modes_from_active (lb_reg b) positions)) ps)
  end.

Fixpoint lazy_measure_all (dist : pdist) (L : list nat) (bs : list lbranch) : lres (list lbranch) :=
  match bs with
  | [] => LOk []
  | b :: r => match lazy_measure_branch dist L b, lazy_measure_all dist L r with
              | LOk l1, LOk l2 => LOk (l1 ++ l2)
              | _, _ => LErr
              end
  end.

Fixpoint lazy_exec (dist : pdist) (Ls : list (list nat)) (bs : list lbranch) : lres (list lbranch) :=
  match Ls with
  | [] => LOk bs
  | L :: rest => match lazy_measure_all dist L bs with
                 | LErr => LErr
                 | LOk bs' => lazy_exec dist rest bs'
                 end
  end.

Definition lazy_initial (d : nat) (cutoff : Z) : list lbranch :=
  [mkLB (mkLS d [] cutoff) [] 1%Q (seq 0 d)].

(* what the property demands: the weight of the outcome tuple of the measured labels is their
   joint probability *)
Definition spec_weight (dist : pdist) (Ls : list (list nat)) (out : vec) : Q :=
  joint_prob dist [] (concat Ls) out.
