(* Binomial coefficients (Pascal recursion) and the correctness of the
   multiplicative loop used by piquasso's comb / arr_comb. *)
From Coq Require Import ZArith List Bool Lia ZifyBool.
From PV Require Import Comb.FockModel.
Import ListNotations.
Open Scope Z_scope.

Fixpoint binom (n k : nat) : Z :=
  match k, n with
  | O, _ => 1
  | S k', O => 0
  | S k', S n' => binom n' k' + binom n' k
  end.

Lemma binom_n_0 n : binom n 0 = 1.
Proof. destruct n; reflexivity. Qed.

Lemma binom_0_S k : binom 0 (S k) = 0.
Proof. reflexivity. Qed.

Lemma binom_S_S n k : binom (S n) (S k) = binom n k + binom n (S k).
Proof. reflexivity. Qed.

Lemma binom_gt n : forall k, (n < k)%nat -> binom n k = 0.
Proof.
  induction n as [|n IH]; intros k Hk.
  - destruct k; [lia | reflexivity].
  - destruct k as [|k]; [lia|]. rewrite binom_S_S, !IH by lia. reflexivity.
Qed.

Lemma binom_nn n : binom n n = 1.
Proof.
  induction n as [|n IH]; [reflexivity|].
  rewrite binom_S_S, IH, binom_gt by lia. reflexivity.
Qed.

Lemma binom_nonneg n : forall k, 0 <= binom n k.
Proof.
  induction n as [|n IH]; intros [|k]; simpl; try lia.
  specialize (IH k) as H1. specialize (IH (S k)) as H2. lia.
Qed.

Lemma binom_pos n : forall k, (k <= n)%nat -> 0 < binom n k.
Proof.
  induction n as [|n IH]; intros [|k] Hk; simpl; try lia.
  specialize (IH k ltac:(lia)). pose proof (binom_nonneg n (S k)). lia.
Qed.

(* absorption: C(n,k+1)·(k+1) = C(n,k)·(n-k), valid for all n k over Z *)
Lemma binom_absorb n : forall k,
  binom n (S k) * Z.of_nat (S k) = binom n k * (Z.of_nat n - Z.of_nat k).
Proof.
  induction n as [|n IH]; intros k.
  - rewrite binom_0_S. destruct k; simpl; lia.
  - rewrite binom_S_S. destruct k as [|k].
    + rewrite !binom_n_0. specialize (IH 0%nat). rewrite binom_n_0 in IH. lia.
    + rewrite binom_S_S.
      pose proof (IH k) as H1. pose proof (IH (S k)) as H2. nia.
Qed.

Lemma binom_sym n : forall k, (k <= n)%nat -> binom n k = binom n (n - k).
Proof.
  induction n as [|n IH]; intros k Hk.
  - replace k with 0%nat by lia. reflexivity.
  - destruct k as [|k].
    + rewrite binom_n_0. replace (S n - 0)%nat with (S n) by lia. now rewrite binom_nn.
    + rewrite binom_S_S. destruct (Nat.eq_dec k n) as [->|Hne].
      * replace (S n - S n)%nat with 0%nat by lia.
        rewrite binom_nn, binom_gt by lia. reflexivity.
      * replace (S n - S k)%nat with (S (n - S k)) by lia.
        rewrite binom_S_S.
        rewrite (IH k) by lia. rewrite (IH (S k)) by lia.
        replace (S (n - S k)) with (n - k)%nat by lia. lia.
Qed.

(* ---- the loop ---- *)
Lemma comb_loop_S n k :
  comb_loop n (S k) = comb_step n (comb_loop n k) k.
Proof.
  unfold comb_loop. rewrite seq_S, fold_left_app. reflexivity.
Qed.

Lemma comb_loop_binom n : forall k, comb_loop (Z.of_nat n) k = binom n k.
Proof.
  induction k as [|k IH].
  - now rewrite binom_n_0.
  - rewrite comb_loop_S, IH. unfold comb_step.
    rewrite <- binom_absorb.
    replace (Z.of_nat k + 1) with (Z.of_nat (S k)) by lia.
    apply Z.div_mul. lia.
Qed.

(* the division in the loop is exact at every iteration *)
Lemma comb_loop_exact n k :
  (comb_loop (Z.of_nat n) k * (Z.of_nat n - Z.of_nat k)) mod (Z.of_nat k + 1) = 0.
Proof.
  rewrite comb_loop_binom, <- binom_absorb.
  replace (Z.of_nat k + 1) with (Z.of_nat (S k)) by lia.
  apply Z.mod_mul. lia.
Qed.

(* binomial on Z arguments: 0 outside 0 <= k <= n *)
Definition binomZ (n k : Z) : Z :=
  if (n <? 0) || (k <? 0) then 0 else binom (Z.to_nat n) (Z.to_nat k).

Theorem comb_spec n k : comb n k = binomZ n k.
Proof.
  unfold comb, binomZ.
  destruct (n <? 0) eqn:Hn; [reflexivity|].
  destruct (k <? 0) eqn:Hk; [reflexivity|].
  cbn [orb].
  destruct (n <? k) eqn:Hnk.
  - symmetry. apply binom_gt. lia.
  - rewrite <- (Z2Nat.id n) at 1 by lia. rewrite comb_loop_binom.
    destruct (Z.min_spec k (n - k)) as [[_ ->]|[_ ->]].
    + reflexivity.
    + rewrite Z2Nat.inj_sub by lia. symmetry. apply binom_sym. lia.
Qed.

Lemma comb_nat n k : comb (Z.of_nat n) (Z.of_nat k) = binom n k.
Proof.
  rewrite comb_spec. unfold binomZ.
  destruct (Z.of_nat n <? 0) eqn:?; [lia|].
  destruct (Z.of_nat k <? 0) eqn:?; [lia|].
  cbn [orb]. now rewrite !Nat2Z.id.
Qed.

(* binomials increase up to the middle *)
Lemma binom_mono_step n j : (2 * j + 1 <= n)%nat -> binom n j <= binom n (S j).
Proof.
  intros H. pose proof (binom_absorb n j) as Ha.
  pose proof (binom_nonneg n j). pose proof (binom_nonneg n (S j)). nia.
Qed.

Lemma binom_mono n : forall j m, (j <= m)%nat -> (2 * m <= n)%nat -> binom n j <= binom n m.
Proof.
  intros j m Hjm. induction Hjm as [|m Hjm IH]; intros Hm; [lia|].
  etransitivity; [apply IH; lia|]. apply binom_mono_step. lia.
Qed.

(* arr_comb: the masked loop computes C(n, min(k, n-k)) = C(n,k) and no product that
   is used leaves the int64 range as long as  C(n,k)*k  does not. *)
Lemma arr_comb_loop n m : forall k,
  (k <= m)%nat -> (2 * m <= n)%nat -> binom n m * Z.of_nat m < 2^63 ->
  fold_left (arr_comb_step (Z.of_nat n) (Z.of_nat m)) (seq 0 k) (Some 1) = Some (binom n k).
Proof.
  induction k as [|k IH]; intros Hk Hm Hb.
  - now rewrite binom_n_0.
  - rewrite seq_S, fold_left_app, IH by lia. cbn [fold_left arr_comb_step Nat.add].
    destruct (Z.of_nat k <? Z.of_nat m) eqn:E; [|lia].
    rewrite <- binom_absorb.
    assert (Hle : binom n (S k) <= binom n m) by (apply binom_mono; lia).
    pose proof (binom_nonneg n (S k)).
    assert (Hok : int64_ok (binom n (S k) * Z.of_nat (S k)) = true).
    { unfold int64_ok. apply andb_true_intro. split; [nia|]. 
      apply Z.ltb_lt. eapply Z.le_lt_trans; [|exact Hb]. nia. }
    rewrite Hok. f_equal.
    replace (Z.of_nat k + 1) with (Z.of_nat (S k)) by lia. apply Z.div_mul. lia.
Qed.

Lemma arr_comb_loop_stay n m p : forall extra k,
  (m <= k)%nat ->
  fold_left (arr_comb_step n (Z.of_nat m)) (seq k extra) (Some p) = Some p.
Proof.
  induction extra as [|e IH]; intros k Hk; [reflexivity|].
  cbn [seq fold_left arr_comb_step].
  destruct (Z.of_nat k <? Z.of_nat m) eqn:E; [lia|]. apply IH. lia.
Qed.

Lemma arr_comb_loop_neg n m p : forall extra k, m <= 0 ->
  fold_left (arr_comb_step n m) (seq k extra) (Some p) = Some p.
Proof.
  induction extra as [|e IH]; intros k Hm; [reflexivity|].
  cbn [seq fold_left arr_comb_step].
  destruct (Z.of_nat k <? m) eqn:E; [lia|]. now apply IH.
Qed.

Theorem arr_comb_spec n k :
  0 <= k -> binomZ n k * k < 2^63 -> arr_comb n k = Some (binomZ n k).
Proof.
  intros Hk Hb. unfold arr_comb, binomZ in *.
  destruct (n <? 0) eqn:Hn; cbn [orb] in *.
  - rewrite arr_comb_loop_neg by lia. reflexivity.
  - destruct (k <? 0) eqn:Hk0; [lia|].
    destruct (n <? k) eqn:Hnk.
    + rewrite arr_comb_loop_neg by lia. f_equal. symmetry. apply binom_gt. lia.
    + set (kn := Z.to_nat k) in *. set (nn := Z.to_nat n) in *.
      assert (Hkn : (kn <= nn)%nat) by lia.
      destruct (Z.min_spec k (n - k)) as [[Hlt ->]|[Hle ->]].
      * (* m = k *)
        replace k with (Z.of_nat kn) at 1 by lia.
        replace n with (Z.of_nat nn) by lia.
        rewrite (arr_comb_loop nn kn kn); [reflexivity | lia | lia | lia].
      * (* m = n - k < k : first n-k steps multiply, the rest keep *)
        set (mm := (nn - kn)%nat).
        replace (n - k) with (Z.of_nat mm) by lia.
        replace n with (Z.of_nat nn) by lia.
        replace kn with (mm + (kn - mm))%nat at 1 by lia.
        rewrite seq_app, fold_left_app.
        assert (Hsym : binom nn mm = binom nn kn).
        { unfold mm. symmetry. apply binom_sym. lia. }
        rewrite (arr_comb_loop nn mm mm); [| lia | lia |].
        -- rewrite arr_comb_loop_stay by lia. now rewrite Hsym.
        -- rewrite Hsym. pose proof (binom_nonneg nn kn). nia.
Qed.

(* hockey stick: sum_{m<c} C(d-1+m, m) = C(d+c-1, d), in the form used for the
   basis size: sum_{m<c} C(d+m, d) = C(d+c, d+1). *)
Lemma binom_hockey d : forall c,
  fold_right Z.add 0 (map (fun m => binom (d + m) d) (seq 0 c)) = binom (d + c) (S d).
Proof.
  induction c as [|c IH].
  - simpl. rewrite Nat.add_0_r. symmetry. apply binom_gt. lia.
  - rewrite seq_S, map_app, fold_right_app. simpl.
    replace (d + S c)%nat with (S (d + c)) by lia. rewrite binom_S_S.
    rewrite <- IH. rewrite Z.add_0_r.
    generalize (map (fun m : nat => binom (d + m) d) (seq 0 c)).
    intros l. induction l as [|x l IHl]; simpl; lia.
Qed.
