(* C02 — piquasso/_math/polynomial.py:multiply_by_linear_truncated with the identity of the
   `out` buffer modelled, and the post-selection probability tables of
   passive/sampling.py built from it.  Definitions only.

   A NumPy array of shape [shape] is a function on multi-indices; only indices inside the
   shape are ever read or tabulated (that is the truncation). *)
From Coq Require Import ZArith QArith List Bool Arith.
From PV Require Import C02.DistModel C02.PostselectModel.
Import ListNotations.
Local Open Scope nat_scope.

Fixpoint set_nth (i : nat) (v : nat) (l : list nat) : list nat :=
  match l, i with
  | [], _ => []
  | _ :: r, O => v :: r
  | x :: r, S j => x :: set_nth j v r
  end.

(* idx with idx[axis] - 1 *)
Definition dec_at (axis : nat) (idx : list nat) : list nat :=
  set_nth axis (Nat.pred (nth axis idx O)) idx.

(* all multi-indices of a shape in C order (the order of ndarray.ravel()) *)
Fixpoint all_indices (shape : list nat) : list (list nat) :=
  match shape with
  | [] => [[]]
  | n :: r => flat_map (fun i => map (cons i) (all_indices r)) (seq 0 n)
  end.

Fixpoint ravel (shape idx : list nat) : nat :=
  match shape, idx with
  | n :: sr, i :: ir => i * fold_right Nat.mul 1 sr + ravel sr ir
  | _, _ => O
  end.

Fixpoint idx_eqb (a b : list nat) : bool :=
  match a, b with
  | [], [] => true
  | x :: r, y :: s => Nat.eqb x y && idx_eqb r s
  | _, _ => false
  end.

Section TP.
  Variable N : num.
  Notation "a +' b" := (nadd a b) (at level 50, left associativity).
  Notation "a *' b" := (nmul a b) (at level 40, left associativity).
  Notation "a -' b" := (nsub a b) (at level 50, left associativity).
  Notation "a /' b" := (ndiv a b) (at level 40, left associativity).

  Definition arr : Type := list nat -> N.

  Definition tabulate (shape : list nat) (a : arr) : list N := map a (all_indices shape).
  Definition of_flat (shape : list nat) (l : list N) : arr := fun idx => nth (ravel shape idx) l n0.

  (* np.moveaxis(out, axis, 0)[1:] += coefficient * np.moveaxis(p, axis, 0)[:-1]
     NumPy evaluates the right-hand side into a temporary first, so every read of [p]
     sees the values before this statement even when p and out are the same buffer. *)
  Definition shift_add (out p : arr) (axis : nat) (coef : N) : arr :=
    fun idx => if (1 <=? nth axis idx O)%nat then out idx +' coef *' p (dec_at axis idx)
               else out idx.

  (* the `for axis, coefficient in enumerate(linear_coefficients)` loop.
     aliased = true: `out is polynomial`, so the array read as `polynomial` is the current out *)
  Fixpoint axes_loop (aliased : bool) (p out : arr) (axis : nat) (ls : list N) : arr :=
    match ls with
    | [] => out
    | l :: r => axes_loop aliased p (shift_add out (if aliased then out else p) axis l) (S axis) r
    end.

  (* _math/polynomial.py:multiply_by_linear_truncated(polynomial, constant, linear, out):
     `out[...] = constant * polynomial` then the loop *)
  Definition mul_lin (aliased : bool) (p : arr) (c : N) (ls : list N) : arr :=
    axes_loop aliased p (fun idx => c *' p idx) 0 ls.

  (* what the docstring promises: (constant + sum_j linear[j] x_j) * polynomial, coefficient of
     x^idx *)
  Fixpoint lin_terms (p : arr) (idx : list nat) (axis : nat) (ls : list N) : N :=
    match ls with
    | [] => n0
    | l :: r => (if (1 <=? nth axis idx O)%nat then l *' p (dec_at axis idx) else n0)
                +' lin_terms p idx (S axis) r
    end.
  Definition product_coeff (p : arr) (c : N) (ls : list N) : arr :=
    fun idx => c *' p idx +' lin_terms p idx 0 ls.

  Definition delta (k : nat) : arr :=
    fun idx => if idx_eqb idx (repeat O k) then n1 else n0.

  (* sampling.py:_calculate_dist_postselection_probability.
     [particles]: for every distinguishable photon, in first-quantised order, the vector
     |U[postselect_modes, input_mode]|^2.  aliased = the code as found (out=polynomial). *)
  Definition dist_postselection_poly (aliased : bool) (k : nat) (particles : list (list N)) : arr :=
    fold_left (fun poly q => mul_lin aliased poly (n1 -' nsum q) q) particles (delta k).
  Definition dist_postselection_probability aliased (particles : list (list N))
             (ps_photons : list nat) : N :=
    dist_postselection_poly aliased (length ps_photons) particles ps_photons.

  (* sampling.py:_calculate_dist_postselection_probability_table (distinct buffers):
     table[i] = generating polynomial of photons i, i+1, ... *)
  Fixpoint dist_table (k : nat) (particles : list (list N)) : list arr :=
    match particles with
    | [] => [delta k]
    | q :: r => let t := dist_table k r in
                mul_lin false (hd (delta k) t) (n1 -' nsum q) q :: t
    end.

  (* sampling.py:_sample_dist_output_conditioned_on_postselection, one photon:
     the weight vector handed (after normalisation) to rng.choice *)
  Fixpoint ps_weights (next : arr) (remaining : list nat) (axis : nat) (qs : list N) : list N :=
    match qs with
    | [] => []
    | q :: r => (if Nat.eqb (nth axis remaining O) O then n0
                 else q *' next (dec_at axis remaining))
                :: ps_weights next remaining (S axis) r
    end.
  Definition photon_weights (next : arr) (remaining : list nat) (non_ps ps : list N) : list N :=
    let future := next remaining in
    let loss := n1 -' nsum non_ps -' nsum ps in
    map (fun q => q *' future) non_ps ++ [loss *' future] ++ ps_weights next remaining 0 ps.
  Definition normalise (ws : list N) : list N := map (fun w => w /' nsum ws) ws.

  (* the loop over the distinguishable photons as a function of the script of drawn indices;
     returns the normalised weight vectors requested and the final
     (non-post-selected counts, post-selected counts) *)
  Fixpoint conditioned_run (tables : list arr) (photons : list (list N * list N))
           (script : list nat) (remaining : list nat) (out_non out_ps : list Z)
    : list (list N) * (list Z * list Z) :=
    match photons, tables with
    | (non_ps, ps) :: pr, _ :: tr =>
        let next := hd (fun _ => n0) tr in
        let ws := normalise (photon_weights next remaining non_ps ps) in
        let i := hd O script in
        let k := length non_ps in
        let '(rem', on', op') :=
          if (i <? k)%nat then (remaining, inc i out_non, out_ps)
          else if Nat.eqb i k then (remaining, out_non, out_ps)
          else (dec_at (i - k - 1) remaining, out_non, inc (i - k - 1) out_ps) in
        let '(wss, fin) := conditioned_run tr pr (tl script) rem' on' op' in
        (ws :: wss, fin)
    | _, _ => ([], (out_non, out_ps))
    end.
End TP.

Arguments tabulate {N}. Arguments of_flat {N}. Arguments shift_add {N}. Arguments axes_loop {N}.
Arguments mul_lin {N}. Arguments lin_terms {N}. Arguments product_coeff {N}. Arguments delta {N}.
Arguments dist_postselection_poly {N}. Arguments dist_postselection_probability {N}.
Arguments dist_table {N}. Arguments photon_weights {N}. Arguments normalise {N}.
Arguments conditioned_run {N}. Arguments ps_weights {N}.
