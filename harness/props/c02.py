"""C02 — Measurement samples follow the Born rule of the measured state."""
import itertools
import json
import math
import os
from fractions import Fraction as F

from common import (CASES_HEADER, VERIF, Check, clist, coq_eval_parallel, cq, cz,
                    parse_coq_list, run_impl)

IMPORTS = CASES_HEADER + """From Coq Require Import Qabs.
From PV Require Import Base.CasesLib C02.PostselectModel C02.DistModel C02.TruncPolyModel C02.DyneModel.
Open Scope Z_scope.
Definition close (impl model : Q) : bool :=
  Qle_bool (Qabs (impl - model)) ((1 # 1000000000) * (1 + Qabs model)).
Definition closel := list_eqb close.
Definition closell := list_eqb closel.
Definition nl_eqb := list_eqb Nat.eqb.
"""

PYTH = [(F(3, 5), F(4, 5)), (F(4, 5), F(3, 5)), (F(5, 13), F(12, 13)), (F(12, 13), F(5, 13)),
        (F(8, 17), F(15, 17)), (F(15, 17), F(8, 17)), (F(7, 25), F(24, 25)), (F(20, 29), F(21, 29))]


def cn(n):
    return "%d%%nat" % int(n)


def nlist(xs):
    return clist(xs, cn)


def qf(x):
    """float -> exact Coq Q"""
    return cq(F(float(x)))


# ----------------------------------------------------------------------------- exact complex
def cmul(a, b):
    return (a[0] * b[0] - a[1] * b[1], a[0] * b[1] + a[1] * b[0])


def cadd(a, b):
    return (a[0] + b[0], a[1] + b[1])


def rand_unitary(rng, d, nrot=None):
    """Exact Gaussian-rational unitary: product of Givens rotations with Pythagorean
    cosines/sines and Pythagorean phases."""
    U = [[(F(int(i == j)), F(0)) for j in range(d)] for i in range(d)]
    if d == 1:
        c, s = rng.choice(PYTH)
        return [[(c, s)]]
    for _ in range(nrot if nrot is not None else d + 1):
        i, j = rng.sample(range(d), 2)
        c, s = rng.choice(PYTH)
        ph = rng.choice(PYTH + [(F(1), F(0)), (F(0), F(1)), (F(-1), F(0))])
        for k in range(d):
            a, b = U[i][k], U[j][k]
            U[i][k] = cadd(cmul((c, F(0)), a), cmul((-s * ph[0], -s * ph[1]), b))
            U[j][k] = cadd(cmul((s * ph[0], -s * ph[1]), a), cmul((c, F(0)), b))
    return U


def ujson(U):
    return [[[float(x[0]), float(x[1])] for x in row] for row in U]


def abs2(z):
    return z[0] * z[0] + z[1] * z[1]


# ----------------------------------------------------------------------------- references (harness side)
def perm(M):
    n = len(M)
    if n == 0:
        return 1.0 + 0j
    tot = 0j
    for p in itertools.permutations(range(n)):
        t = 1.0 + 0j
        for i in range(n):
            t *= M[i][p[i]]
        tot += t
    return tot


def occupations(d, n):
    if d == 1:
        yield (n,)
        return
    for k in range(n, -1, -1):
        for rest in occupations(d - 1, n - k):
            yield (k,) + rest


def born_distribution(Uc, occ):
    """|perm(U_{t,s})|^2 / (t! s!) for every output occupation t with sum(t) = sum(s)."""
    d, n = len(occ), sum(occ)
    cols = [m for m, k in enumerate(occ) for _ in range(k)]
    sfact = math.prod(math.factorial(k) for k in occ)
    out = {}
    for t in occupations(d, n):
        rows = [m for m, k in enumerate(t) for _ in range(k)]
        M = [[Uc[r][c] for c in cols] for r in rows]
        out[t] = abs(perm(M)) ** 2 / (sfact * math.prod(math.factorial(k) for k in t))
    return out


def thin(dist, p):
    """every output photon survives independently with probability p"""
    out = {}
    for s, pr in dist.items():
        for t in itertools.product(*[range(k + 1) for k in s]):
            w = pr
            for sj, tj in zip(s, t):
                w *= math.comb(sj, tj) * p ** tj * (1 - p) ** (sj - tj)
            out[t] = out.get(t, 0.0) + w
    return out


def lossy_distribution(Uc, occ, loss):
    """Exact outcome distribution behind the lossy matrix A = diag(loss) U, from a unitary
    dilation on 2d modes (environment traced out); independent of piquasso."""
    import numpy as np

    d = len(occ)
    A = np.diag(loss) @ np.array(Uc, dtype=complex)

    W, S, Xh = np.linalg.svd(A)
    C = np.sqrt(np.clip(1.0 - S ** 2, 0.0, None))
    # V = (W + I) [[S, C], [C, -S]] (X^dagger + I): unitary, upper-left block A
    V = np.block([[W @ np.diag(S) @ Xh, W @ np.diag(C)], [np.diag(C) @ Xh, -np.diag(S)]])
    assert np.allclose(V[:d, :d], A, atol=1e-12) and np.allclose(V @ V.conj().T, np.eye(2 * d), atol=1e-7)
    born = born_distribution(V.tolist(), list(occ) + [0] * d)
    out = {}
    for t, p in born.items():
        out[t[:d]] = out.get(t[:d], 0.0) + p
    return out


def condition(dist, ps_modes, ps_photons, measure=None):
    out = {}
    for t, pr in dist.items():
        if all(t[m] == c for m, c in zip(ps_modes, ps_photons)):
            rest = tuple(x for i, x in enumerate(t) if i not in ps_modes)
            if measure is not None:
                rest = tuple(t[m] for m in measure)      # mode labels are the original ones
            out[rest] = out.get(rest, 0.0) + pr
    tot = sum(out.values())
    return ({k: v / tot for k, v in out.items()} if tot > 0 else {}), tot


def law_distance(a, b):
    keys = set(a) | set(b)
    return max((abs(a.get(k, 0.0) - b.get(k, 0.0)) for k in keys), default=0.0)


# ----------------------------------------------------------------------------- generators
def gen_occ(rng, d, nmax):
    n = rng.randint(1, nmax)
    occ = [0] * d
    if rng.random() < 0.3:
        occ[rng.randrange(d)] = n
    else:
        for _ in range(n):
            occ[rng.randrange(d)] += 1
    return occ


def gen_postselect(rng, idx):
    d = rng.choice([2, 3, 3, 4])
    occ = gen_occ(rng, d, 3)
    n = sum(occ)
    k = rng.randint(1, min(2, d - 1))
    ps_modes = rng.sample(range(d), k)
    ps_photons = [rng.choice([0, 0, 1, 1, 2]) for _ in range(k)]
    lossy = rng.random() < 0.6
    trials = rng.choice([1, 2, 3, 4])
    U = rand_unitary(rng, d)
    draws = [rng.randrange(12) / 12.0 for _ in range(3 * n * trials + 3)]
    return {"id": idx, "kind": "post", "U": ujson(U), "input": occ, "ps_modes": ps_modes,
            "ps_photons": ps_photons, "trials": trials, "p_keep": 0.5 if lossy else None,
            "draws": draws, "track": rng.random() < 0.85}


def gen_plain(rng, idx):
    d = rng.choice([2, 3, 4])
    occ = gen_occ(rng, d, 4)
    lossy = rng.random() < 0.5
    return {"id": idx, "kind": "plain", "U": ujson(rand_unitary(rng, d)), "input": occ,
            "p_keep": 0.5 if lossy else None,
            "draws": [rng.randrange(12) / 12.0 for _ in range(3 * sum(occ) + 2)]}


def small_q(rng, lo=0, hi=6, den=(1, 2, 3, 4, 5, 8, 10)):
    return F(rng.randint(lo, hi), rng.choice(den))


def gen_trunc(rng, idx):
    k = rng.randint(1, 3)
    shape = [rng.randint(1, 3) for _ in range(k)]
    size = math.prod(shape)
    poly = [small_q(rng, -4, 6) for _ in range(size)]
    return {"id": idx, "shape": shape, "polyq": poly, "cq": small_q(rng, -3, 5),
            "lsq": [small_q(rng, -3, 5) for _ in range(k)]}


def gen_dist(rng, idx):
    d = rng.choice([3, 3, 4])
    U = rand_unitary(rng, d, nrot=d + 2)
    dist = [0] * d
    for _ in range(rng.randint(1, 3)):
        dist[rng.randrange(d)] += 1
    k = rng.randint(1, min(2, d - 1))
    psm = rng.sample(range(d), k)
    bound = [rng.randint(0, 2) for _ in range(k)]
    psp = [rng.randint(0, b) for b in bound]
    while sum(psp) > sum(dist):
        psp[psp.index(max(psp))] -= 1
    nph = sum(dist)
    return {"id": idx, "Uq": U, "U": ujson(U), "dist": dist, "ps_modes": psm, "ps_photons": psp,
            "ps_bound": bound, "draws": [rng.randrange(12) / 12.0 for _ in range(nph)]}


def gen_counts(rng, idx):
    k = rng.randint(1, 4)
    keys = [[rng.randint(0, 2) for _ in range(2)] for _ in range(k)]
    return {"id": idx, "samples": [rng.choice(keys) for _ in range(rng.randint(1, 12))]}


def symplectic_cov(rng, d, hbar):
    """exact rational covariance hbar * S S^T, S a product of single-mode squeezers
    diag(u, 1/u), rotations and real beamsplitters"""
    dim = 2 * d
    S = [[F(int(i == j)) for j in range(dim)] for i in range(dim)]

    def left(M):
        nonlocal S
        S = [[sum(M[i][k] * S[k][j] for k in range(dim)) for j in range(dim)] for i in range(dim)]

    for m in range(d):
        u = rng.choice([F(1), F(2), F(3, 2), F(1, 2), F(4, 3)])
        M = [[F(int(i == j)) for j in range(dim)] for i in range(dim)]
        M[2 * m][2 * m] = u
        M[2 * m + 1][2 * m + 1] = 1 / u
        left(M)
        c, s = rng.choice(PYTH)
        M = [[F(int(i == j)) for j in range(dim)] for i in range(dim)]
        M[2 * m][2 * m], M[2 * m][2 * m + 1], M[2 * m + 1][2 * m], M[2 * m + 1][2 * m + 1] = c, s, -s, c
        left(M)
    for _ in range(d):
        if d < 2:
            break
        a, b = rng.sample(range(d), 2)
        c, s = rng.choice(PYTH)
        M = [[F(int(i == j)) for j in range(dim)] for i in range(dim)]
        for q in (0, 1):
            M[2 * a + q][2 * a + q] = c
            M[2 * a + q][2 * b + q] = -s
            M[2 * b + q][2 * a + q] = s
            M[2 * b + q][2 * b + q] = c
        left(M)
    return [[hbar * sum(S[i][k] * S[j][k] for k in range(dim)) for j in range(dim)] for i in range(dim)]


def gen_dyne(rng, idx, kind=None):
    d = rng.choice([1, 2, 3])
    hbar = rng.choice([F(2), F(1), F(3), F(1, 2)])
    sigma = symplectic_cov(rng, d, hbar)
    mu = [small_q(rng, -4, 4) for _ in range(2 * d)]
    modes = rng.sample(range(d), rng.randint(1, d))
    kind = kind or rng.choice(["generaldyne", "heterodyne", "homodyne", "generaldyne"])
    case = {"id": idx, "d": d, "hbarq": hbar, "sigmaq": sigma, "muq": mu, "modes": modes, "kind": kind,
            "hbar": float(hbar), "sigma": [[float(x) for x in r] for r in sigma], "mu": [float(x) for x in mu]}
    if kind == "generaldyne":
        u = rng.choice([F(1), F(2), F(1, 2), F(3, 2)])
        c, s = rng.choice(PYTH + [(F(1), F(0))])
        # R diag(u, 1/u) R^T : a pure single-mode covariance
        sm = [[c * c * u + s * s / u, c * s * (u - 1 / u)], [c * s * (u - 1 / u), s * s * u + c * c / u]]
        case["smq"] = sm
        case["sm"] = [[float(x) for x in r] for r in sm]
    elif kind == "heterodyne":
        case["smq"] = [[F(1), F(0)], [F(0), F(1)]]
    else:
        c, s = rng.choice(PYTH + [(F(1), F(0)), (F(0), F(1))])
        z = rng.choice([F(1, 10000), F(1, 100), F(1, 2)])
        case["cq"], case["sq"], case["zq"] = c, s, z
        case["phi"] = math.atan2(float(s), float(c))
        case["z"] = float(z)
    return case


def rand_detector(rng, rows, cols):
    """detector efficiency matrix whose every column is a generic distribution (dark counts
    and over-counting included); entries k/20, exact"""
    colsq = []
    for _ in range(cols):
        cuts = sorted(rng.sample(range(1, 20), rows - 1))
        parts = [b - a for a, b in zip([0] + cuts, cuts + [20])]
        colsq.append([F(x, 20) for x in parts])
    return [[colsq[j][i] for j in range(cols)] for i in range(rows)]


def law_cases(rng, thorough):
    """feature combinations of the passive sampler; every class at least once; the classes whose
    single-shot enumeration is small are also run with 2-3 consecutive shots"""
    cases = []
    joint = 6000 if thorough else 1500

    def add(cls, **kw):
        kw["id"] = len(cases)
        kw["cls"] = cls
        kw.setdefault("max_joint_leaves", joint)
        cases.append(kw)

    reps = 3 if thorough else 1
    for r in range(reps):
        small = [(2, [1, 1]), (3, [1, 1, 0])]
        more = [(3, [2, 0, 1])] + ([(3, [1, 1, 1]), (4, [1, 0, 1, 1]), (3, [0, 3, 0])] if thorough else [])
        for d, occ in small + more:
            cheap_only = (d, occ) not in small
            sh = 2 if d == 2 else 1
            U = rand_unitary(rng, d)
            add("ideal", U=ujson(U), input=occ, shots=2 if d <= 3 and sum(occ) <= 2 else 1)
            add("uniform-loss", U=ujson(U), input=occ, eta=float(rng.choice([F(4, 5), F(1, 2)])), shots=sh)
            m = rng.randrange(d)
            c = rng.choice([0, 1])
            add("postselect", U=ujson(U), input=occ, ps_modes=[m], ps_photons=[c], shots=sh)
            add("uniform-loss+postselect", U=ujson(U), input=occ, eta=float(rng.choice([F(4, 5), F(3, 5)])),
                ps_modes=[m], ps_photons=[c], trials=1, shots=sh)
            add("nonuniform-loss", U=ujson(U), input=occ,
                loss=[float(x) for x in rng.sample([F(9, 10), F(4, 5), F(7, 10), F(3, 5), F(1, 2)], d)], shots=sh)
            add("loss-on-one-mode", U=ujson(U), input=occ, loss=[0.9] + [1.0] * (d - 1))
            if cheap_only:
                continue
            if r == 0:
                add("uniform-loss+postselect", U=ujson(U), input=occ, eta=0.8, ps_modes=[m], ps_photons=[c], trials=2)
            add("uniform-overlap", U=ujson(U), input=occ, overlap=float(rng.choice([F(1, 2), F(4, 5)])), shots=sh)
            add("uniform-overlap+loss", U=ujson(U), input=occ, overlap=0.5, eta=0.8)
            add("uniform-overlap+postselect", U=ujson(U), input=occ, overlap=0.5, ps_modes=[m], ps_photons=[c], trials=1)
        # measurement of a subset of the modes (direct marginal sampler), several shots
        for d, occ, k, shots in [(3, [1, 1, 0], 2, 3), (4, [1, 1, 0, 0], 3, 2), (3, [2, 0, 1], 2, 2)] + \
                ([(4, [1, 0, 2, 0], 3, 2), (4, [1, 1, 1, 0], 2, 2)] if thorough else []):
            U = rand_unitary(rng, d)
            meas = rng.sample(range(d), k)
            add("marginal", U=ujson(U), input=occ, measure=meas, shots=shots)
            add("marginal+uniform-loss", U=ujson(U), input=occ, measure=sorted(meas), eta=float(rng.choice([F(4, 5), F(3, 5)])), shots=2)
        U = rand_unitary(rng, 4)
        m = rng.randrange(4)
        add("marginal+postselect", U=ujson(U), input=[1, 1, 0, 0], ps_modes=[m], ps_photons=[rng.choice([0, 1])],
            measure=sorted(rng.sample([x for x in range(4) if x != m], 2)), shots=2)
        # imperfect detectors with generic columns
        for d, occ, meas in [(2, [1, 0], None), (2, [1, 1], None), (3, [1, 1, 0], [2, 0])]:
            U = rand_unitary(rng, d)
            det = rand_detector(rng, rng.choice([3, 4]), 3)
            kw = dict(U=ujson(U), input=occ, detector=[[float(x) for x in row] for row in det], shots=2)
            if meas is not None:
                kw["measure"] = meas
            add("imperfect-detector" + ("+marginal" if meas else ""), **kw)
    # the vacuum input with an impossible post-selection
    add("postselect-vacuum", U=ujson(rand_unitary(rng, 2)), input=[0, 0], ps_modes=[0], ps_photons=[1])
    return cases


def detect_push(dist, P):
    """push a distribution of actual counts through the detector matrix P[detected][actual]"""
    out = {}
    rows = len(P)
    for a, pr in dist.items():
        for det in itertools.product(range(rows), repeat=len(a)):
            w = pr
            for dm, am in zip(det, a):
                w *= P[dm][am]
            if w:
                out[det] = out.get(det, 0.0) + w
    return out


def product_law(single, shots):
    """law of the sorted tuple of `shots` independent draws from `single`"""
    out = {}
    keys = list(single)
    for combo in itertools.product(keys, repeat=shots):
        w = 1.0
        for k in combo:
            w *= single[k]
        key = tuple(sorted(combo))
        out[key] = out.get(key, 0.0) + w
    return out


def gen_imperfect(rng, idx):
    rows, cols = rng.choice([2, 3, 4]), rng.choice([2, 3])
    det = rand_detector(rng, rows, cols) if rows > 1 else [[F(1)] * cols]
    k = rng.randint(1, 3)
    actual = [rng.choice([0, 0] + list(range(cols))) for _ in range(k)]
    mult = rng.randint(1, 3 if k < 3 else 2)
    return {"id": idx, "detq": det, "detector": [[float(x) for x in row] for row in det], "actual": actual,
            "multiplicity": mult, "draws": [rng.randrange(12) / 12.0 for _ in range(k * mult)]}


# ----------------------------------------------------------------------------- exact Gaussian conditioning
def fmat_mul(A, B):
    return [[sum(A[i][k] * B[k][j] for k in range(len(B))) for j in range(len(B[0]))] for i in range(len(A))]


def fmat_inv(A):
    n = len(A)
    M = [list(row) + [F(int(i == j)) for j in range(n)] for i, row in enumerate(A)]
    for c in range(n):
        piv = next(r for r in range(c, n) if M[r][c] != 0)
        M[c], M[piv] = M[piv], M[c]
        pv = M[c][c]
        M[c] = [x / pv for x in M[c]]
        for r in range(n):
            if r != c and M[r][c] != 0:
                f = M[r][c]
                M[r] = [x - f * y for x, y in zip(M[r], M[c])]
    return [row[n:] for row in M]


def dyne_sequence_expected(mu, sigma, hbar, steps, d):
    """For a sequence of general-dyne type measurements: the (mean, cov) every measurement must
    hand to the normal sampler, given that the sampler returned mean + (j+1)/4 in entry j for
    the earlier ones.  Exact Gaussian conditioning on the quadratures actually measured:
    sigma_B' = sigma_B - sigma_BA (sigma_A + hbar sigma_m)^-1 sigma_AB,
    mu_B' = mu_B + sigma_BA (sigma_A + hbar sigma_m)^-1 (r - mu_A)."""
    labels = list(range(d))
    mu = list(mu)
    sigma = [list(r) for r in sigma]
    out = []
    for st in steps:
        pos = [labels.index(m) for m in st["modes"]]
        dim = len(mu)
        if st["kind"] == "homodyne":
            c, s_ = st["cq"], st["sq"]
            R = [[F(int(i == j)) for j in range(dim)] for i in range(dim)]
            for p_ in pos:
                R[2 * p_][2 * p_], R[2 * p_][2 * p_ + 1], R[2 * p_ + 1][2 * p_], R[2 * p_ + 1][2 * p_ + 1] = c, s_, -s_, c
            mu = [sum(R[i][k] * mu[k] for k in range(dim)) for i in range(dim)]
            sigma = fmat_mul(fmat_mul(R, sigma), [list(x) for x in zip(*R)])
            z = st["zq"]
            sm = [[z * z, F(0)], [F(0), 1 / (z * z)]]
        else:
            sm = st["smq"]
        idx = [q for p_ in pos for q in (2 * p_, 2 * p_ + 1)]
        outer = [i for i in range(dim) if i not in idx]
        mean = [mu[i] for i in idx]
        tot = [[sigma[a][b] + (hbar * sm[i % 2][j % 2] if i // 2 == j // 2 else 0) for j, b in enumerate(idx)]
               for i, a in enumerate(idx)]
        out.append((mean, [[x / 2 for x in row] for row in tot]))
        ret = [m_ + F(j + 1, 4) for j, m_ in enumerate(mean)]
        if outer:
            inv = fmat_inv(tot)
            K = fmat_mul([[sigma[a][b] for b in idx] for a in outer], inv)
            delta = [r_ - m_ for r_, m_ in zip(ret, mean)]
            mu = [mu[a] + sum(K[i][j] * delta[j] for j in range(len(idx))) for i, a in enumerate(outer)]
            KS = fmat_mul(K, [[sigma[a][b] for b in outer] for a in idx])
            sigma = [[sigma[a][b] - KS[i][j] for j, b in enumerate(outer)] for i, a in enumerate(outer)]
        else:
            mu, sigma = [], []
        labels = [l for l in labels if l not in st["modes"]]
    return out


def gen_dyne_step(rng, modes):
    kind = rng.choice(["homodyne", "homodyne", "generaldyne", "heterodyne"])
    st = {"kind": kind, "modes": modes}
    if kind == "generaldyne":
        u = rng.choice([F(1), F(2), F(1, 2), F(3, 2)])
        c, s = rng.choice(PYTH + [(F(1), F(0))])
        st["smq"] = [[c * c * u + s * s / u, c * s * (u - 1 / u)], [c * s * (u - 1 / u), s * s * u + c * c / u]]
        st["sm"] = [[float(x) for x in r] for r in st["smq"]]
    elif kind == "heterodyne":
        st["smq"] = [[F(1), F(0)], [F(0), F(1)]]
    else:
        c, s = rng.choice(PYTH)          # a non-zero angle
        z = rng.choice([F(1, 2), F(1, 4), F(2, 3)])
        st["cq"], st["sq"], st["zq"] = c, s, z
        st["phi"] = math.atan2(float(s), float(c))
        st["z"] = float(z)
    return st


def gen_dyne2(rng, idx):
    d = rng.choice([2, 3, 3])
    hbar = rng.choice([F(2), F(1), F(3), F(1, 2)])
    sigma = symplectic_cov(rng, d, hbar)
    mu = [small_q(rng, -4, 4) for _ in range(2 * d)]
    order = rng.sample(range(d), d)
    ka = rng.randint(1, d - 1)
    kb = rng.randint(1, d - ka)
    steps = [gen_dyne_step(rng, order[:ka]), gen_dyne_step(rng, order[ka:ka + kb])]
    if d - ka - kb >= 1 and rng.random() < 0.5:
        steps.append(gen_dyne_step(rng, order[ka + kb:]))
    return {"id": idx, "d": d, "hbarq": hbar, "sigmaq": sigma, "muq": mu, "stepsq": steps,
            "hbar": float(hbar), "sigma": [[float(x) for x in r] for r in sigma], "mu": [float(x) for x in mu],
            "steps": [{k: v for k, v in st.items() if not k.endswith("q")} for st in steps]}


CORPUS = os.path.join(VERIF, "harness", "corpus", "c02.jsonl")


def load_corpus():
    out = {"postselect": [], "dist": [], "law": [], "dyne": []}
    if os.path.exists(CORPUS):
        for line in open(CORPUS):
            line = line.strip()
            if line:
                rec = json.loads(line)
                out[rec["stream"]].append(rec["case"])
    return out


def ev_coq(e):
    return "Lost" if e[0] == "L" else "(Kept %s %s)" % (cn(e[1]), cn(e[2]))


def run(chk: Check):
    chk.proofs()
    T = chk.thorough
    rng = chk.rng
    corpus = load_corpus()
    npost, nplain, ntrunc, ndist, ncounts, ndyne = (3000, 600, 600, 400, 300, 200) if T else (500, 120, 150, 100, 80, 48)

    post = [dict(c, id=i) for i, c in enumerate(corpus["postselect"])]
    post += [gen_postselect(rng, len(post) + i) for i in range(npost)]
    plain = [gen_plain(rng, len(post) + i) for i in range(nplain)]
    trunc = [gen_trunc(rng, i) for i in range(ntrunc)]
    dist = [gen_dist(rng, i) for i in range(ndist)]
    counts = [gen_counts(rng, i) for i in range(ncounts)]
    dyne = [gen_dyne(rng, i) for i in range(ndyne)]
    laws = law_cases(rng, T)
    imps = [gen_imperfect(rng, i) for i in range(120 if T else 40)]
    dyne2 = [gen_dyne2(rng, i) for i in range(150 if T else 40)]

    def strip(c):
        return {k: v for k, v in c.items() if not k.endswith("q")}

    req = {"postselect": post + plain,
           "trunc": [dict(strip(c), poly=[float(x) for x in c["polyq"]], c=float(c["cq"]),
                          ls=[float(x) for x in c["lsq"]]) for c in trunc],
           "dist": [strip(c) for c in dist], "counts": counts, "dyne": [strip(c) for c in dyne],
           "law": [{k: v for k, v in c.items() if k != "cls"} for c in laws],
           "imperfect": [strip(c) for c in imps], "dyne2": [strip(c) for c in dyne2]}
    os.makedirs(os.path.join(VERIF, ".run"), exist_ok=True)
    json.dump(req, open(os.path.join(VERIF, ".run", "c02_request.json"), "w"))
    impl = run_impl("c02_impl.py", req, timeout=3000)
    chk.notes.append("implementation runner seconds per section: %s" % impl.get("seconds"))
    corr_broken = []
    bodies = []
    index = []   # (stream, list of case ids) per body

    # ---------------- 1. loops as functions of the script
    items, ids = [], []
    skipped = 0
    for c, r in zip(post + plain, impl["postselect"]):
        if r["events"] is None or r["sample"] in ("OutOfScript", "IndexError"):
            skipped += 1
            corr_broken.append("sampler loop: the recorded generator calls do not parse into loop events (case %s): %s"
                               % (c["id"], r["sample"]))
            continue
        d, n = len(c["input"]), sum(c["input"])
        # the implementation reads its generator lazily, the model wants a whole pass of events
        # to be present: pad with n unread `Lost` events and require exactly those to be left over
        evs = clist(r["events"] + ([["L"]] * n if c["kind"] != "plain" else []), ev_coq)
        if c["kind"] == "plain":
            fq = [m for m, k in enumerate(c["input"]) for _ in range(k)]
            items.append("(zl_eqb (generate_sample %s %s %s) %s && (List.length %s =? %d)%%nat)"
                         % (cn(d), nlist(fq), evs, clist(r["sample"]), evs,
                            sum(1 for e in r["events"])))
        else:
            call = "run_from true %s %s %s %s %s %s 0%%nat %s" % (
                "true" if c.get("track", True) else "false", nlist(c["ps_modes"]), clist(c["ps_photons"]),
                cn(d), cn(n), cn(c["trials"]), evs)
            if r["sample"] == "TooManyTrials":
                items.append("match %s with TooManyTrials => true | _ => false end" % call)
            else:
                items.append("match %s with Accepted s _ rest => zl_eqb s %s && (List.length rest =? %d)%%nat | _ => false end"
                             % (call, clist(r["sample"]), n))
        ids.append(c["id"])
    chunk = 250
    for i in range(0, len(items), chunk):
        bodies.append(IMPORTS + "Definition cases : list bool := [%s].\nEval vm_compute in mismatches (fun b : bool => b) cases.\n"
                      % ";\n".join(items[i:i + chunk]))
        index.append(("loop", ids[i:i + chunk]))
    nontriv_loop = len({json.dumps([c["input"], c.get("ps_modes"), c.get("ps_photons"), r["events"] and [e[:3] for e in r["events"]]])
                        for c, r in zip(post + plain, impl["postselect"]) if r["events"] and len(r["events"]) >= 2})

    # ---------------- 2. truncated multiplication, both buffer situations
    items, ids = [], []
    for c, r in zip(trunc, impl["trunc"]):
        shape = nlist(c["shape"])
        p = "(of_flat (N:=QN) %s %s)" % (shape, clist(c["polyq"], cq))
        items.append("(closel %s (tabulate (N:=QN) %s (mul_lin false %s %s %s)) && closel %s (tabulate (N:=QN) %s (mul_lin true %s %s %s)) && closel %s (tabulate (N:=QN) %s (product_coeff %s %s %s)))" % (
            clist(r["distinct"], qf), shape, p, cq(c["cq"]), clist(c["lsq"], cq),
            clist(r["aliased"], qf), shape, p, cq(c["cq"]), clist(c["lsq"], cq),
            clist(r["distinct"], qf), shape, p, cq(c["cq"]), clist(c["lsq"], cq)))
        ids.append(c["id"])
    for i in range(0, len(items), chunk):
        bodies.append(IMPORTS + "Definition cases : list bool := [%s].\nEval vm_compute in mismatches (fun b : bool => b) cases.\n"
                      % ";\n".join(items[i:i + chunk]))
        index.append(("trunc", ids[i:i + chunk]))

    # ---------------- 3. post-selection tables and the conditioned sampler
    items, ids = [], []
    nan_cases = 0
    impossible = 0
    for c, r in zip(dist, impl["dist"]):
        if isinstance(r["sample"], str) or any(w is None or any(x != x for x in w) for w in r["weights"]):
            nan_cases += 1
            continue
        U = c["Uq"]
        d = len(U)
        fq = [m for m, k in enumerate(c["dist"]) for _ in range(k)]
        non_ps = [m for m in range(d) if m not in c["ps_modes"]]
        particles = clist(fq, lambda m: clist([abs2(U[p][m]) for p in c["ps_modes"]], cq))
        photons = clist(fq, lambda m: "(%s, %s)" % (clist([abs2(U[p][m]) for p in non_ps], cq),
                                                    clist([abs2(U[p][m]) for p in c["ps_modes"]], cq)))
        bshape = nlist([b + 1 for b in c["ps_bound"]])
        k = len(c["ps_modes"])
        # exact probability of the post-selection (harness side): when it is zero the sampler
        # never reaches the conditioned draw (rng.random() > p always holds) and the
        # implementation's weights there are 0/0 rounding noise
        gf = {(0,) * k: F(1)}
        for m in fq:
            q = [abs2(U[p_][m]) for p_ in c["ps_modes"]]
            nxt = {}
            for ix, v in gf.items():
                nxt[ix] = nxt.get(ix, 0) + (1 - sum(q)) * v
                for j in range(k):
                    jx = ix[:j] + (ix[j] + 1,) + ix[j + 1:]
                    nxt[jx] = nxt.get(jx, 0) + q[j] * v
            gf = nxt
        possible = gf.get(tuple(c["ps_photons"]), 0) > 0
        if not possible:
            impossible += 1
            items.append(
                "(close %s (dist_postselection_probability (N:=QN) false %s %s) && "
                "closell %s (map (tabulate (N:=QN) %s) (dist_table (N:=QN) %s %s)))" % (
                    qf(r["scalar"]), particles, nlist(c["ps_photons"]),
                    clist(r["table"], lambda t: clist(t, qf)), bshape, cn(k), particles))
            ids.append(c["id"])
            continue
        out_non = [r["sample"][m] for m in non_ps]
        out_ps = [r["sample"][m] for m in c["ps_modes"]]
        items.append(
            "(close %s (dist_postselection_probability (N:=QN) false %s %s) && "
            "closell %s (map (tabulate (N:=QN) %s) (dist_table (N:=QN) %s %s)) && "
            "(let '(ws, (on, op)) := conditioned_run (N:=QN) (dist_table (N:=QN) %s %s) %s %s %s %s %s in "
            " closell %s ws && zl_eqb on %s && zl_eqb op %s))" % (
                qf(r["scalar"]), particles, nlist(c["ps_photons"]),
                clist(r["table"], lambda t: clist(t, qf)), bshape, cn(k), particles,
                cn(k), particles, photons, nlist(r["choices"]), nlist(c["ps_photons"]),
                clist([0] * len(non_ps)), clist([0] * k),
                clist(r["weights"], lambda w: clist(w, qf)), clist(out_non), clist(out_ps)))
        ids.append(c["id"])
    dchunk = 60
    for i in range(0, len(items), dchunk):
        bodies.append(IMPORTS + "Definition cases : list bool := [%s].\nEval vm_compute in mismatches (fun b : bool => b) cases.\n"
                      % ";\n".join(items[i:i + dchunk]))
        index.append(("dist", ids[i:i + dchunk]))

    # ---------------- 4. binning
    items, ids = [], []
    for c, r in zip(counts, impl["counts"]):
        items.append("(list_eqb (fun (a b : list Z * Q) => zl_eqb (fst a) (fst b) && Qeq_bool (snd a) (snd b)) "
                     "(frequencies zl_eqb %s) %s)" % (
                         clist(c["samples"], clist),
                         clist(r["freq"], lambda t: "(%s, %s)" % (clist(t[0]), cq(F(t[1], t[2]))))))
        ids.append(c["id"])
    bodies.append(IMPORTS + "Definition cases : list bool := [%s].\nEval vm_compute in mismatches (fun b : bool => b) cases.\n"
                  % ";\n".join(items))
    index.append(("counts", ids))

    # ---------------- 5. arguments of multivariate_normal
    items, ids = [], []
    for c, r in zip(dyne, impl["dyne"]):
        k = len(c["modes"])
        mu = clist(c["muq"], cq)
        sigma = clist(c["sigmaq"], lambda row: clist(row, cq))
        dim = 2 * k
        cov = [r["cov"][i * dim:(i + 1) * dim] for i in range(dim)] if r["dim"] == dim else [r["cov"]]
        if c["kind"] == "homodyne":
            mean_m = "homodyne_mean_arg (N:=QN) %s %s %s %s" % (cq(c["cq"]), cq(c["sq"]), mu, nlist(c["modes"]))
            cov_m = "homodyne_cov_arg (N:=QN) true %s %s %s %s %s %s" % (
                cq(c["hbarq"]), cq(c["cq"]), cq(c["sq"]), cq(c["zq"]), sigma, nlist(c["modes"]))
        else:
            mean_m = "dyne_mean_arg (N:=QN) %s %s" % (mu, nlist(c["modes"]))
            cov_m = "dyne_cov_arg (N:=QN) true %s %s %s %s" % (
                cq(c["hbarq"]), sigma, clist(c["smq"], lambda row: clist(row, cq)), nlist(c["modes"]))
        items.append("(closel %s (%s) && closell %s (%s))" % (
            clist(r["mean"], qf), mean_m, clist(cov, lambda row: clist(row, qf)), cov_m))
        ids.append(c["id"])
    for i in range(0, len(items), 25):
        bodies.append(IMPORTS + "Definition cases : list bool := [%s].\nEval vm_compute in mismatches (fun b : bool => b) cases.\n"
                      % ";\n".join(items[i:i + 25]))
        index.append(("dyne", ids[i:i + 25]))

    # ---------------- 6. imperfect detection: exact branch weights and the sampled bins
    items, ids = [], []
    imp_draws = []
    for c, r in zip(imps, impl["imperfect"]):
        if "exact" not in r or "scripted" not in r:
            corr_broken.append("imperfect detection: the implementation raised on case %s: %s" % (c["id"], r.get("exact_error") or r.get("scripted_error")))
            continue
        k, mult = len(c["actual"]), c["multiplicity"]
        picks = [x[1] for x in r["calls"]]
        draws_by_mode = [picks[m * mult:(m + 1) * mult] for m in range(k)] if len(picks) == k * mult else None
        if draws_by_mode is None:
            imp_draws.append("%d draws for %d modes x %d shots (case %s, actual %s)" % (len(picks), k, mult, c["id"], c["actual"]))
            continue
        P = clist(c["detq"], lambda row: clist(row, cq))
        items.append(
            "(list_eqb (fun (a b : list nat * Q) => nl_eqb (fst a) (fst b) && Qeq_bool (snd a) (snd b)) "
            "(detected_outcome_probabilities (N:=QN) %s %s) %s && "
            "list_eqb (fun (a b : list nat * nat) => nl_eqb (fst a) (fst b) && Nat.eqb (snd a) (snd b)) "
            "(sample_detected %s %s) %s && "
            "qll_eqb (probabilities_by_mode (N:=QN) %s %s) %s)" % (
                P, nlist(c["actual"]),
                clist(r["exact"], lambda t: "(%s, %s)" % (nlist(t[0]), cq(F(t[1], t[2])))),
                cn(mult), clist(draws_by_mode, nlist),
                clist(r["scripted"], lambda t: "(%s, %s)" % (nlist(t[0]), cn(t[1]))),
                P, nlist(c["actual"]),
                clist([r["calls"][m * mult][2] for m in range(k)], lambda w: clist([F(x).limit_denominator(1000) for x in w], cq))))
        ids.append(c["id"])
    bodies.append(IMPORTS + "From PV Require Import C02.ImperfectModel.\nDefinition cases : list bool := [%s].\nEval vm_compute in mismatches (fun b : bool => b) cases.\n"
                  % ";\n".join(items))
    index.append(("imperfect", ids))
    if imp_draws:
        corr_broken.append("imperfect detection: _sample_detected_outcomes does not draw one count per mode and shot in %d case(s): %s"
                           % (len(imp_draws), "; ".join(imp_draws[:3])))

    outs = coq_eval_parallel("c02", bodies, jobs=4)
    bad = {"loop": [], "trunc": [], "dist": [], "counts": [], "dyne": [], "imperfect": []}
    for (stream, idl), o in zip(index, outs):
        g = parse_coq_list(o)
        for k in g[0]:
            bad[stream].append(idl[k])
    names = {"loop": "sampler loop as a function of its script (model of the repaired _generate_sample_with_postselect / _generate_sample)",
             "trunc": "multiply_by_linear_truncated (distinct and aliased out buffer)",
             "dist": "post-selection probability / table / conditioned sampler of the distinguishable photons (model of the repaired, non-aliased code)",
             "counts": "sample_from_probability_map binning",
             "dyne": "(mean, cov) handed to multivariate_normal (model of the repaired code: (sigma + hbar sigma_m)/2)",
             "imperfect": "imperfect detection: shots=None branch weights, per-mode columns handed to rng.choice, binning of the sampled counts"}
    json.dump({"bad": bad, "impl": {k: impl[k] for k in ("postselect", "dist")}},
              open(os.path.join(VERIF, ".run", "c02_last_ties.json"), "w"))
    for stream, lst in bad.items():
        if lst:
            corr_broken.append("%s: model != implementation on %d case(s), first ids %s" % (names[stream], len(lst), lst[:5]))

    chk.stream("post-selected / plain Clifford-Clifford loops, scripted randomness vs model", len(post) + len(plain),
               nontriv_loop, samples=[{"input": post[-1]["input"], "ps_modes": post[-1]["ps_modes"],
                                       "ps_photons": post[-1]["ps_photons"], "events": [e[:3] for e in impl["postselect"][len(post) - 1]["events"] or []],
                                       "sample": impl["postselect"][len(post) - 1]["sample"]}],
               note="%d cases skipped" % skipped)
    chk.stream("multiply_by_linear_truncated vs model (both buffer situations) and vs the product coefficients", len(trunc),
               len({json.dumps([c["shape"], [str(x) for x in c["lsq"]]]) for c in trunc if len(c["shape"]) >= 2}),
               samples=[{"shape": trunc[0]["shape"], "ls": [str(x) for x in trunc[0]["lsq"]]}])
    chk.stream("distinguishable-photon post-selection tables and conditioned sampler vs model", len(dist) - nan_cases,
               len({json.dumps([c["dist"], c["ps_modes"], c["ps_photons"]]) for c in dist}),
               note="%d cases with NaN weights not compared; %d cases whose post-selection has exact probability 0: tables compared, conditioned draw (unreachable) not" % (nan_cases, impossible))
    chk.stream("binning of samples into frequencies vs model", len(counts), len({json.dumps(c["samples"]) for c in counts if len(c["samples"]) > 2}))
    chk.stream("general-dyne / heterodyne / homodyne arguments of multivariate_normal vs model", len(dyne),
               len({json.dumps([c["modes"], c["kind"], c["d"]]) for c in dyne}),
               samples=[{"kind": dyne[0]["kind"], "modes": dyne[0]["modes"], "hbar": str(dyne[0]["hbarq"])}])

    chk.stream("imperfect detection (_get_detected_outcome_probabilities, _sample_detected_outcomes with scripted draws) vs model",
               len(imps), len({json.dumps([c["actual"], c["multiplicity"], c["detector"]]) for c in imps if len(c["actual"]) >= 2}),
               samples=[{"actual": imps[0]["actual"], "multiplicity": imps[0]["multiplicity"], "detector": [[str(x) for x in row] for row in imps[0]["detq"]]}])

    # ---------------- search: the property stated directly on the implementation
    # (a) one pass of the post-selected loop accepts only satisfied samples; a multi-trial run
    #     returns a satisfied sample
    nsearch = 0
    for c, r in zip(post, impl["postselect"]):
        if not c.get("track", True) or not isinstance(r["sample"], list) or r["events"] is None:
            continue
        nsearch += 1
        d, n = len(c["input"]), sum(c["input"])
        # replay the accepted pass: the last n loop iterations that ran to the end
        evs = r["events"]
        full = [0] * d
        # reconstruct the accepted pass from the end: the pass consumed at most n events and was not broken
        tail = evs[-n:] if n else []
        # a broken pass could be shorter, so walk back until the pass boundary is consistent
        for e in tail:
            if e[0] == "K":
                full[e[2]] += 1
        want = list(c["ps_photons"])
        got = [full[m] for m in c["ps_modes"]]
        trimmed = [x for i, x in enumerate(full) if i not in c["ps_modes"]]
        if trimmed == r["sample"] and got != want:
            loss = "uniform-loss" if c["p_keep"] is not None else "no-loss"
            cls = "n=0" if n == 0 else loss
            chk.violation("C02:_generate_sample_with_postselect:accepts-unsatisfied:%s" % cls,
                          "a sample whose post-selected modes hold %s instead of the required %s is accepted" % (got, want),
                          {"call": "piquasso._simulators.passive.sampling._generate_sample_with_postselect",
                           "input": c["input"], "ps_modes": c["ps_modes"], "ps_photons": c["ps_photons"],
                           "events": [e[:3] for e in evs], "returned": r["sample"]})
    # (b) aliasing: the scalar post-selection probability equals the table entry
    for c, r in zip(dist, impl["dist"]):
        nsearch += 1
        shape = [b + 1 for b in c["ps_bound"]]
        flat = 0
        for s, i in zip(shape, c["ps_photons"]):
            flat = flat * s + i
        tab = r["table"][0][flat]
        if abs(tab - r["scalar"]) > 1e-9 * (1 + abs(tab)):
            chk.violation("C02:_calculate_dist_postselection_probability:aliased-out-buffer",
                          "post-selection probability of the distinguishable photons %.12g differs from the table entry %.12g computed with distinct buffers" % (r["scalar"], tab),
                          {"U": c["U"], "dist_particles": c["dist"], "ps_modes": c["ps_modes"], "ps_photons": c["ps_photons"]})
    # (c) general-dyne: covariance (sigma + hbar sigma_m)/2, mean, one entry per measured quantity
    for c, r in zip(dyne, impl["dyne"]):
        nsearch += 1
        k = len(c["modes"])
        idx = [q for m in c["modes"] for q in (2 * m, 2 * m + 1)]
        if c["kind"] != "homodyne":
            sm = c["smq"]
            want = [[(c["sigmaq"][a][b] + (c["hbarq"] * sm[i % 2][j % 2] if i // 2 == j // 2 else 0)) / 2
                     for j, b in enumerate(idx)] for i, a in enumerate(idx)]
            flat = [float(x) for row in want for x in row]
            if len(flat) != len(r["cov"]) or any(abs(a - b) > 1e-9 * (1 + abs(b)) for a, b in zip(r["cov"], flat)):
                ratio = r["cov"][0] / flat[0] if flat[0] else None
                chk.violation("C02:_get_generaldyne_samples:covariance-not-halved",
                              "multivariate_normal receives covariance %s x (sigma + hbar sigma_m)/2" % ("%.6g" % ratio if ratio else "?"),
                              {"kind": c["kind"], "modes": c["modes"], "hbar": c["hbar"], "sigma": c["sigma"],
                               "sigma_m": [[float(x) for x in row] for row in sm], "cov_passed": r["cov"], "cov_expected": flat})
            want_mean = [float(c["muq"][a]) for a in idx]
            if any(abs(a - b) > 1e-9 * (1 + abs(b)) for a, b in zip(r["mean"], want_mean)):
                chk.violation("C02:_get_generaldyne_samples:mean", "mean handed to the sampler is not mu[indices]",
                              {"modes": c["modes"], "mean_passed": r["mean"], "expected": want_mean})
            if any(e != 2 * k for e in r["entries"]):
                chk.violation("C02:generaldyne_measurement:entries", "sample does not carry one (x, p) pair per measured mode",
                              {"modes": c["modes"], "entries": r["entries"]})
        else:
            # the measured quantity is x_phi of every mode: variance (sigma_phi + hbar z^2)/2
            cc, ss, z = c["cq"], c["sq"], c["zq"]
            for j, m in enumerate(c["modes"]):
                sg = c["sigmaq"]
                var = (cc * cc * sg[2 * m][2 * m] + 2 * cc * ss * sg[2 * m][2 * m + 1] + ss * ss * sg[2 * m + 1][2 * m + 1] + c["hbarq"] * z * z) / 2
                got = r["cov"][(2 * j) * r["dim"] + 2 * j] if r["dim"] == 2 * k else None
                if got is None or abs(got - float(var)) > 1e-9 * (1 + float(var)):
                    chk.violation("C02:_get_generaldyne_samples:covariance-not-halved",
                                  "homodyne: variance of the x_phi entry handed to the sampler is %s, the outcome density has %.12g" % (got, float(var)),
                                  {"kind": "homodyne", "modes": c["modes"], "hbar": c["hbar"], "sigma": c["sigma"], "phi": c["phi"], "z": c["z"]})
                    break
            if any(e != k for e in r["entries"]):
                chk.violation("C02:homodyne_measurement:two-entries-per-mode",
                              "homodyne sample has %d entries for %d measured modes (the second entry of every mode is the unmeasured conjugate quadrature drawn with variance ~ hbar/(2 z^2))" % (r["entries"][0], k),
                              {"modes": c["modes"], "entries": r["entries"], "phi": c["phi"], "z": c["z"]})
    chk.stream("direct checks on the implementation: accepted samples satisfy the post-selection; scalar = table entry; (mean, cov) of the normal sampler; entries per sample",
               nsearch, nsearch // 2, kind="search")

    # (d) exact law of the sampler by enumerating every random choice, through Simulator.execute
    nlaw = 0
    leaves = 0
    classes = {}
    njoint = [0]
    for c, r in zip(laws, impl["law"]):
        nlaw += 1
        cls = c["cls"]
        classes[cls] = classes.get(cls, 0) + 1
        wit = {k: v for k, v in c.items() if k not in ("id",)}
        wit.pop("max_joint_leaves", None)
        wit["call"] = "PassiveSimulator.execute(NumberState/Interferometer/loss/PostSelectPhotons/(Imperfect)ParticleNumberMeasurement, shots=1 and shots=%d) with every random choice enumerated" % c.get("shots", 1)
        measure = c.get("measure")
        det = c.get("detector")
        if "law_error" in r and "enumeration limit" in r["law_error"]:
            chk.notes.append("law case %s (%s): enumeration limit reached, not compared" % (c["id"], cls))
            continue
        if "law_error" in r:
            chk.violation("C02:particle_number_measurement:%s:error" % cls,
                          "the sampler raises %s" % r["law_error"], wit)
            continue
        leaves += r["leaves"]
        law = {tuple(k): v for k, v in r["law"] if k != "rejected"}
        rejected = sum(v for k, v in r["law"] if k == "rejected")
        ps_modes, ps_photons = c.get("ps_modes", []), c.get("ps_photons", [])
        d = len(c["input"])
        if any(len(k) != (len(measure) if measure is not None else d - len(ps_modes)) for k in law):
            chk.violation("C02:particle_number_measurement:%s:entries" % cls, "a sample does not have one entry per measured mode", wit)
        acc = sum(law.values())
        if cls == "postselect-vacuum":
            if acc > 1e-12:
                chk.violation("C02:_generate_sample_with_postselect:accepts-unsatisfied:n=0",
                              "vacuum input, post-selection on one photon: the sampler returns samples with probability %.3g although the event has probability 0" % acc, wit)
            continue
        if not law and "reference" in r and not r["law"]:
            chk.violation("C02:generate_lossy_samples:nan-pmf",
                          "every path of the sampler hands NaN probabilities to the generator (with NumPy's generator: ValueError 'Probabilities contain NaN')", wit)
            continue
        if abs(acc + rejected - 1.0) > 1e-9:
            chk.violation("C02:particle_number_measurement:%s:total-mass" % cls, "the enumerated probabilities sum to %.12g" % (acc + rejected), wit)
            continue
        cond = {k: v / acc for k, v in law.items()} if acc > 0 else {}
        refs = []
        if "reference" in r:
            refd = {tuple(k): v for k, v in r["reference"]}
            refs.append(("State.fock_probabilities_map", condition(refd, ps_modes, ps_photons, measure)))
        if c.get("overlap") is None and c.get("loss") is None:
            Uc = [[complex(a, b) for a, b in row] for row in c["U"]]
            born = born_distribution(Uc, c["input"])
            if c.get("eta") is not None:
                born = thin(born, c["eta"] ** 2)
            refs.append(("permanent formula (harness)", condition(born, ps_modes, ps_photons, measure)))
        if c.get("overlap") is None and c.get("loss") is not None:
            Uc = [[complex(a, b) for a, b in row] for row in c["U"]]
            indep = condition(lossy_distribution(Uc, c["input"], c["loss"]), ps_modes, ps_photons)
            refs.append(("unitary dilation + permanent formula (harness)", indep))
            if refs[0][0].startswith("State") and law_distance(refs[0][1][0], indep[0]) > 1e-8 \
                    and law_distance(cond, indep[0]) <= 1e-8:
                # the sampler is right, the state's own probability function is not
                chk.violation("C02:PassiveState.fock_probabilities:lossy-complex-interferometer",
                              "State.fock_probabilities_map of a non-uniformly lossy state differs by %.3g from the exact distribution (unitary dilation); the sampler's law agrees with the dilation" % law_distance(refs[0][1][0], indep[0]),
                              dict(wit, state_map={str(k): round(v, 9) for k, v in refs[0][1][0].items() if v > 1e-12},
                                   exact={str(k): round(v, 9) for k, v in indep[0].items() if v > 1e-12}))
                refs.pop(0)
        if det is not None:
            refs = [(name + " pushed through the detector matrix", (detect_push(ref, det), pacc)) for name, (ref, pacc) in refs]
            if "exact_branches" in r:
                refs.append(("branch weights of the same program with shots=None", ({tuple(k): v for k, v in r["exact_branches"]}, 1.0)))
            elif "exact_branches_error" in r:
                chk.notes.append("law case %s: shots=None raised %s" % (c["id"], r["exact_branches_error"]))
        # consecutive shots: the joint law must be the product of the single-shot laws
        if "law_multi" in r:
            shots = r["shots"]
            joint = {tuple(tuple(x) for x in k): v for k, v in r["law_multi"] if k != "rejected"}
            want = product_law(law, shots)
            dj = law_distance(joint, want)
            if dj > 1e-8:
                worst = max(set(joint) | set(want), key=lambda k: abs(joint.get(k, 0.0) - want.get(k, 0.0)))
                chk.violation("C02:particle_number_measurement:%s:consecutive-shots-not-independent" % cls,
                              "%d consecutive shots: the joint law differs from the product of the single-shot laws by %.3g (samples %s: probability %.6g, product law %.6g)"
                              % (shots, dj, list(worst), joint.get(worst, 0.0), want.get(worst, 0.0)),
                              dict(wit, shots=shots, joint_outcome=[list(x) for x in worst],
                                   joint_probability=joint.get(worst, 0.0), product_law_probability=want.get(worst, 0.0),
                                   single_shot_law={str(k): round(v, 9) for k, v in law.items()}))
            njoint[0] += 1
        for name, (ref, pacc) in refs:
            dist_ = law_distance(cond, ref)
            wit2 = dict(wit, sampler_law={str(k): round(v, 9) for k, v in cond.items()},
                        exact={str(k): round(v, 9) for k, v in ref.items() if v > 1e-12}, reference=name)
            if dist_ > 1e-8:
                chk.violation("C02:particle_number_measurement:%s:law" % cls,
                              "law of the returned sample differs from the exact distribution by %.3g" % dist_, wit2)
                break
            if c.get("trials", 1) == 1 and ps_modes and measure is None and abs(acc - pacc) > 1e-8:
                chk.violation("C02:particle_number_measurement:%s:acceptance" % cls,
                              "one trial is accepted with probability %.9g, the post-selected event has probability %.9g" % (acc, pacc), wit2)
                break
    chk.stream("exact law of PassiveSimulator particle-number sampling by enumeration of every random choice, against State.fock_probabilities_map and the permanent formula",
               nlaw, len(classes), kind="search", exhaustive=False,
               samples=[{"classes": classes, "paths_enumerated": leaves, "cases_with_2_or_3_consecutive_shots": njoint[0]}])

    # (e) imperfect detection: the law of the sampled bins, by enumeration of every rng.choice,
    #     against the shots=None weights (multinomial over the detected outcomes)
    nimp = 0
    for c, r in zip(imps, impl["imperfect"]):
        if "law" not in r or "exact" not in r:
            if "law_error" in r and "enumeration limit" not in r["law_error"]:
                chk.violation("C02:_sample_detected_outcomes:error", "raises %s" % r["law_error"], strip(c))
            continue
        nimp += 1
        mult = c["multiplicity"]
        impl_exact = {tuple(t[0]): t[1] / t[2] for t in r["exact"]}
        indep = detect_push({tuple(c["actual"]): 1.0}, c["detector"])
        got = {tuple(sorted(x for k, v in key for x in [tuple(k)] * v)): pr for key, pr in r["law"]}
        for name, single in (("_get_detected_outcome_probabilities (shots=None weights)", impl_exact),
                             ("product of the detector columns (harness)", indep)):
            want = product_law(single, mult)
            dj = law_distance(got, want)
            if dj > 1e-9:
                worst = max(set(got) | set(want), key=lambda k: abs(got.get(k, 0.0) - want.get(k, 0.0)))
                chk.violation("C02:_sample_detected_outcomes:law",
                              "actual outcome %s, %d shots: detected outcomes %s are sampled with probability %.6g, %s gives %.6g"
                              % (c["actual"], mult, [list(x) for x in worst], got.get(worst, 0.0), name, want.get(worst, 0.0)),
                              dict(strip(c), detected=[list(x) for x in worst], sampled_probability=got.get(worst, 0.0),
                                   exact_probability=want.get(worst, 0.0), reference=name,
                                   call="piquasso._simulators.simulation_steps._sample_detected_outcomes with every rng.choice enumerated"))
                break
    chk.stream("imperfect detection: exact law of the sampled bins by enumeration, against the shots=None weights and the detector columns",
               nimp, len({json.dumps([c["actual"], c["multiplicity"]]) for c in imps}), kind="search")

    # (f) measurements in a row on correlated Gaussian states: every (mean, cov) handed to the normal
    #     sampler against exact Gaussian conditioning on the quadratures actually measured
    nd2 = 0
    for c, r in zip(dyne2, impl["dyne2"]):
        nd2 += 1
        kinds = "+".join(st["kind"] for st in c["steps"])
        wit = dict(strip(c), call="GaussianSimulator.execute(shots=1, initial_state) with multivariate_normal replaced by a recorder returning mean + (j+1)/4")
        if "error" in r:
            chk.violation("C02:generaldyne_measurement:mid-circuit:error", "execution raises %s" % r["error"], wit)
            continue
        want = dyne_sequence_expected(c["muq"], c["sigmaq"], c["hbarq"], c["stepsq"], c["d"])
        if len(r["calls"]) != len(want):
            chk.violation("C02:generaldyne_measurement:mid-circuit:calls", "%d calls of multivariate_normal for %d measurements" % (len(r["calls"]), len(want)), wit)
            continue
        for j, (call, (mean, cov)) in enumerate(zip(r["calls"], want)):
            fm = [float(x) for x in mean]
            fc = [float(x) for row in cov for x in row]
            okm = len(fm) == len(call["mean"]) and all(abs(a - b) <= 1e-8 * (1 + abs(b)) for a, b in zip(call["mean"], fm))
            okc = len(fc) == len(call["cov"]) and all(abs(a - b) <= 1e-8 * (1 + abs(b)) for a, b in zip(call["cov"], fc))
            if not (okm and okc):
                what = "first" if j == 0 else "later"
                key = ("C02:_get_generaldyne_samples:arguments" if j == 0 else
                       "C02:_get_generaldyne_evolved_state:conditioning-after-%s" % c["steps"][j - 1]["kind"])
                chk.violation(key, "measurement %d of the sequence %s: the %s handed to the normal sampler is not the exact %s (first differing: got %s, exact %s)"
                              % (j + 1, kinds, "mean" if not okm else "covariance",
                                 "conditional mean given the earlier outcomes" if not okm else "(sigma' + hbar sigma_m)/2 of the conditional state",
                                 (call["mean"] if not okm else call["cov"])[:4], (fm if not okm else fc)[:4]),
                              dict(wit, measurement=j + 1, passed=call, exact_mean=fm, exact_cov=fc))
                break
    chk.stream("sequences of homodyne / heterodyne / general-dyne measurements on correlated Gaussian states: sampler arguments vs exact conditioning",
               nd2, len({json.dumps([c["d"], [(st["kind"], st["modes"]) for st in c["steps"]]]) for c in dyne2}), kind="search",
               samples=[{"d": dyne2[0]["d"], "steps": dyne2[0]["steps"]}])

    chk.assumptions += [
        "rng.choice(p=w) draws index i with probability w_i and multivariate_normal(mean, cov) draws N(mean, cov) (NumPy's generators are not modelled)",
        "the conditional pmfs of _calculate_pmf (Laplace-expansion permanents) are not proved to be the Born marginals; they are covered by the exact-law enumeration for d<=4, n<=3 only",
        "theorems are proved about the model instantiated at R; the correspondence runs the same definitions at Q",
        "Gaussian particle-number sampling (rng.normal unravelling) is not enumerated; the exact Gaussian conditioning reference is computed by the harness in exact rational arithmetic",
    ]
    chk.finish(
        rule="loops: distinct (input, post-selection, event list) with >=2 events; trunc: distinct (shape, linear form) with >=2 axes; law: feature classes of the sampler",
        explanation="Props/C02.v: for every script, the repaired post-selection loop accepts exactly the runs whose unconditioned sample satisfies the post-selection (soundness, completeness, justification of every break), retry = conditioning, categorical/chain-rule laws, truncated multiplication closed forms (distinct and aliased buffers), arguments of the normal sampler. Tie: scripted generators replayed on the real functions and on the model (exact / 1e-9). Search: exact law of the sampler by enumerating every random choice through Simulator.execute against the exact distribution.",
        correspondence_broken=corr_broken,
    )
