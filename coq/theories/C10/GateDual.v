(* C10 — the derivative (dual numbers, both arguments) of the gather-matmul-scatter application,
   paired with an upstream gradient, is what the two gradient functions return. *)
From Coq Require Import List Arith Bool Ring Lia Permutation.
From PV Require Import C10.Alg C10.AlgProofs C10.GateModel C10.GateProofs.
Import ListNotations.

Section Proofs.
  Variable A : Type.
  Variable O : Ops A.
  Hypothesis Ath : ring_theory (o0 O) (o1 O) (oadd O) (omul O) (osub O) (oopp O) (@eq A).
  Add Ring Aring5 : Ath.
  Notation "0" := (o0 O) : a_scope.
  Infix "+" := (oadd O) : a_scope.
  Infix "*" := (omul O) : a_scope.
  Local Open Scope a_scope.
  Notation cj := (oconj O).
  Hypothesis cj_add : forall a b, cj (a + b) = cj a + cj b.
  Hypothesis cj_mul : forall a b, cj (a * b) = cj a * cj b.
  Hypothesis cj_0 : cj 0 = 0.
  Notation SM := (sum_map O).
  Let ext := sum_map_ext' A O.

  (* blocks with a direction for each matrix: ((M, I), dM) *)
  Definition dualize (bd : list (((nat -> nat -> A) * imat) * (nat -> nat -> A)))
    : list ((nat -> nat -> A * A) * imat) :=
    map (fun p => (dvec (fst (fst p)) (snd p), snd (fst p))) bd.

  Lemma all_order_dualize : forall bd, all_order (dualize bd) = all_order (map fst bd).
  Proof.
    unfold all_order, dualize. induction bd as [|p bd IH]; [reflexivity|].
    cbn [map flat_map fst snd]. rewrite IH. reflexivity.
  Qed.

  Lemma Sblock_dual : forall M dM I bs g v dv,
    SM (fun a => SM (fun k => SM (fun l =>
        g (ix I a k) l * cj (snd (sum_map (dualOps O)
            (fun b => omul (dualOps O) (dvec M dM a b) (dvec v dv (ix I b k) l)) (seq 0 (ilim I)))))
        (seq 0 bs)) (seq 0 (isz I))) (seq 0 (ilim I)) =
    Sblock A O M I bs g dv + Sblock A O dM I bs g v.
  Proof.
    intros. unfold Sblock.
    rewrite <- (sum_map_add A O Ath). apply ext; intros a.
    rewrite <- (sum_map_add A O Ath). apply ext; intros k.
    rewrite <- (sum_map_add A O Ath). apply ext; intros l.
    rewrite (eps_sum_map A O). cbn [omul dualOps dvec fst snd].
    rewrite (sum_map_add A O Ath), cj_add. ring.
  Qed.

  Theorem D_apply_pairing : forall bd N bs g v dv init,
    Permutation (all_order (map fst bd)) (seq 0 N) ->
    pair_vec O N bs g (fun k l => epsp (apply_blocks (dualOps O) (dualize bd) (dvec v dv) init k l)) =
    Sall A O (map fst bd) bs g dv + Sall A O (map (fun p => (snd p, snd (fst p))) bd) bs g v.
  Proof.
    intros bd N bs g v dv init Hp. unfold pair_vec, epsp. rewrite apply_blocks_scatter.
    rewrite (pairing_scatter A O Ath (A * A) (fun x => snd x));
      [|rewrite all_fwd_targets, all_order_dualize; exact Hp].
    unfold Sall, dualize. rewrite (sum_flat_map A O Ath), !(sum_map_map A O).
    rewrite <- (sum_map_add A O Ath). apply ext; intros p. cbn [fst snd].
    unfold fwd_products. rewrite (sum_products A O Ath). cbn [fst snd].
    apply Sblock_dual.
  Qed.

  (* the derivative paired with the upstream = <grad_state, dv> + <per-block partial gradients, dM> *)
  Theorem vjp_linear_gate_correct : forall bd N bs g v dv init,
    Permutation (all_order (map fst bd)) (seq 0 N) ->
    pair_vec O N bs g (fun k l => epsp (apply_blocks (dualOps O) (dualize bd) (dvec v dv) init k l)) =
    pair_vec O N bs (grad_state O (map fst bd) g) dv +
    SM (fun p => SM (fun a => SM (fun b =>
          partial_grad O (snd (fst p)) bs v g a b * cj (snd p a b))
          (seq 0 (ilim (snd (fst p))))) (seq 0 (ilim (snd (fst p))))) bd.
  Proof.
    intros bd N bs g v dv init Hp. rewrite (D_apply_pairing bd N bs g v dv init Hp). f_equal.
    - erewrite <- (vjp_state_correct A O Ath) with (init := fun _ _ => 0); try eassumption.
      symmetry. eapply pair_forward; eassumption.
    - unfold Sall. rewrite (sum_map_map A O). apply ext; intros p. cbn [fst snd].
      eapply Sblock_matrix; eassumption.
  Qed.
End Proofs.
