(* C02 — Measurement samples follow the Born rule of the measured state.
   Only statements closed by [exact]; proofs live in C02/. *)
From Coq Require Import ZArith QArith List Bool Reals Ring.
From PV Require Import C02.PostselectModel C02.PostselectProofs C02.DistModel C02.DistProofs C02.RejectProofs C02.ChainProofs C02.ImperfectModel C02.ShotsProofs
  C02.TruncPolyModel C02.TruncPolyProofs C02.DistTableProofs C02.DyneModel C02.DyneProofs C02.BinningProofs C02.CondProofs C02.HomodyneProofs.
Import ListNotations.
Open Scope Z_scope.

(* One pass of the (repaired) post-selected Clifford-Clifford loop, for every script, every number
   of photons and modes, every post-selection pattern: it ends in the for-else branch exactly when
   the sample the unconditioned sampler builds from the same draws satisfies the post-selection,
   and then holds that sample; every early exit happens on draws whose completed sample cannot
   satisfy it. *)
Theorem C02_postselect_loop_spec :
  forall (ps_modes : list nat) (ps_photons : list Z) (d : nat),
  NoDup ps_modes -> length ps_photons = length ps_modes ->
  forall l s, Forall (ev_ok d) l -> Inv ps_modes ps_photons d s ->
    match loop true true ps_modes l s with
    | Done s' => sample s' = plain l (sample s) /\ sat ps_modes ps_photons (plain l (sample s))
    | Broke _ rest => ~ sat ps_modes ps_photons (plain l (sample s)) /\ (exists pre, l = pre ++ rest)
    end.
Proof. exact loop_fixed_spec. Qed.
Print Assumptions C02_postselect_loop_spec.

(* seen from outside: the pass is the unconditioned sampler followed by the post-selection test *)
Theorem C02_pass_is_postselection :
  forall ps_modes ps_photons d, NoDup ps_modes -> length ps_photons = length ps_modes ->
  Forall (fun x => 0 <= x) ps_photons ->
  forall l, Forall (ev_ok d) l -> pass_output ps_modes ps_photons d l = post_output ps_modes ps_photons d l.
Proof. exact pass_is_postselection. Qed.
Print Assumptions C02_pass_is_postselection.

(* soundness of the whole retry loop: accept => post-selection satisfied *)
Theorem C02_postselect_accept_sound :
  forall ps_modes ps_photons d, NoDup ps_modes -> length ps_photons = length ps_modes ->
  Forall (fun x => 0 <= x) ps_photons ->
  forall n trials used script out used' rest,
    Forall (ev_ok d) script ->
    run_from true true ps_modes ps_photons d n trials used script = Accepted out used' rest ->
    exists s, out = delete_modes ps_modes s /\ sat ps_modes ps_photons s /\ length s = d /\
              sumZ s <= Z.of_nat n.
Proof. exact run_accept_sound. Qed.
Print Assumptions C02_postselect_accept_sound.

(* completeness: a satisfying first pass is never discarded *)
Theorem C02_postselect_accept_complete :
  forall ps_modes ps_photons d, NoDup ps_modes -> length ps_photons = length ps_modes ->
  Forall (fun x => 0 <= x) ps_photons ->
  forall n t script, Forall (ev_ok d) script -> (n <= length script)%nat ->
    sat ps_modes ps_photons (plain (firstn n script) (zeros d)) ->
    run_from true true ps_modes ps_photons d n (S t) 0 script =
    Accepted (delete_modes ps_modes (plain (firstn n script) (zeros d))) 1 (skipn n script).
Proof. exact run_accept_complete. Qed.
Print Assumptions C02_postselect_accept_complete.

(* the code as found accepts unsatisfied runs (lost photons; no photons at all) *)
Theorem C02_postselect_loss_refuted :
  exists script out used rest,
    run_from false true [0%nat] [1] 2 2 5 0 script = Accepted out used rest /\
    ~ sat [0%nat] [1] (plain (firstn 2 script) (zeros 2)).
Proof. exact postselect_loss_refuted. Qed.
Print Assumptions C02_postselect_loss_refuted.

Theorem C02_postselect_vacuum_refuted :
  exists out used rest,
    run_from false true [0%nat] [1] 2 0 5 0 [] = Accepted out used rest /\ ~ sat [0%nat] [1] (zeros 2).
Proof. exact postselect_vacuum_refuted. Qed.
Print Assumptions C02_postselect_vacuum_refuted.

(* categorical draw (random.choices / rng.choice with normalised weights): the probability of an
   event is its weight over the total weight, for every weight list *)
Theorem C02_categorical_law : forall A (f : A -> bool) (ws : list (A * R)),
  mass (choice (N:=RN) ws) f = (mass (N:=RN) ws f / total (N:=RN) ws)%R.
Proof. exact categorical_law. Qed.
Print Assumptions C02_categorical_law.

Theorem C02_categorical_total : forall A (ws : list (A * R)),
  total (N:=RN) ws <> 0%R -> total (choice (N:=RN) ws) = 1%R.
Proof. exact categorical_total. Qed.
Print Assumptions C02_categorical_total.

(* retry-until-accept, any trial law, any bound n on the trials:
   P(accepted with event f) = P_trial(f) * (1 + q + ... + q^(n-1)), q = P_trial(reject) *)
Theorem C02_rejection_law : forall A (f : A -> bool) (trial : dist RN (option A)) n,
  mass (retry trial n) (lift f) = (mass trial (lift f) * geo (mass trial is_none) n)%R.
Proof. exact rejection_law. Qed.
Print Assumptions C02_rejection_law.

(* hence the accepted sample has the trial's law conditioned on acceptance (cross-multiplied) *)
Theorem C02_rejection_is_conditioning : forall A (f : A -> bool) (trial : dist RN (option A)) n,
  (mass (retry trial n) (lift f) * mass trial (lift (fun _ => true)) =
   mass (retry trial n) (lift (fun _ => true)) * mass trial (lift f))%R.
Proof. exact rejection_is_conditioning. Qed.
Print Assumptions C02_rejection_is_conditioning.

(* and the loop gives up ("too many trials") with probability q^n *)
Theorem C02_retry_failure : forall A (trial : dist RN (option A)) n,
  mass (retry trial n) is_none = ((mass trial is_none) ^ n)%R.
Proof. exact retry_failure. Qed.
Print Assumptions C02_retry_failure.

(* chain-rule sampler over any number of modes: with non-negative, consistent tables P the law of
   the sample is the joint table (telescoping product of the conditionals) *)
Theorem C02_chain_rule_law :
  forall (X : Type) (eqbX : X -> X -> bool), (forall x y, eqbX x y = true <-> x = y) ->
  forall outs : list X, NoDup outs ->
  forall P : list X -> R, (forall s, (0 <= P s)%R) ->
  (forall s, nsum (N:=RN) (map (fun x => P (s ++ [x])) outs) = P s) ->
  forall n pre t, length t = n -> Forall (fun x => In x outs) t -> P pre <> 0%R ->
  mass (chain (N:=RN) outs P n pre) (eql X eqbX (pre ++ t)) = (P (pre ++ t) / P pre)%R.
Proof. exact chain_rule_law. Qed.
Print Assumptions C02_chain_rule_law.

(* consecutive shots of a stateless sampler: the law of a sequence of shots is the product of the
   single-shot laws, for every single-shot law and every sequence *)
Theorem C02_consecutive_shots_product_law : forall (A : Type) (eqb : A -> A -> bool)
  (d : dist RN A) (l : list A),
  mass (iid d (length l)) (eqlA A eqb l) = rprod (map (fun x => mass d (fun a => eqb a x)) l).
Proof. exact iid_law. Qed.
Print Assumptions C02_consecutive_shots_product_law.

(* imperfect detection: one categorical draw per mode from the column of the detector matrix
   selected by the actual count; the detected outcome o has the probability the shots=None
   branch assigns to it, prod_m column_m[o_m], whenever every column sums to one *)
Theorem C02_imperfect_detection_law : forall (cols : list (list R)) (o : list nat),
  Forall (fun c => nsum (N:=RN) c = 1%R) cols -> length o = length cols ->
  mass (detect (N:=RN) cols) (eqlN o) = outcome_probability (N:=RN) cols o.
Proof. exact imperfect_detection_law. Qed.
Print Assumptions C02_imperfect_detection_law.

(* multiply_by_linear_truncated with distinct buffers: every coefficient inside the array shape
   is the coefficient of (c + sum_j l_j x_j) * p, over every commutative ring (division and
   comparison of the number structure arbitrary), every shape, every coefficient array *)
Theorem C02_trunc_mul_correct :
  forall (A : Type) (r0 r1 : A) (radd rmul rsub rdiv : A -> A -> A) (ropp : A -> A)
         (rleb : A -> A -> bool),
  ring_theory r0 r1 radd rmul rsub ropp (@eq A) ->
  forall (p : arr (NA A r0 r1 radd rmul rsub rdiv rleb)) c ls idx,
    @eq A (mul_lin (N:=NA A r0 r1 radd rmul rsub rdiv rleb) false p c ls idx)
          (product_coeff (N:=NA A r0 r1 radd rmul rsub rdiv rleb) p c ls idx).
Proof. exact trunc_mul_correct. Qed.
Print Assumptions C02_trunc_mul_correct.

(* the aliased call of the code before the repair (out = polynomial) does not *)
Theorem C02_trunc_mul_aliased_refuted :
  exists (p : arr QN) (c : Q) (ls : list Q) (idx : list nat),
    ~ (mul_lin (N:=QN) true p c ls idx == product_coeff (N:=QN) p c ls idx)%Q.
Proof. exact trunc_mul_aliased_refuted. Qed.
Print Assumptions C02_trunc_mul_aliased_refuted.

(* the post-selection table of the distinguishable photons: entry i at multi-index r is the
   probability that the photons i, i+1, ... put exactly r_j photons into post-selected mode j,
   each photon landing in mode j with probability q_j independently (for every list of photons) *)
Theorem C02_dist_table_correct : forall (k : nat) (particles : list (list R)) (i : nat) (r : list nat),
  length r = k -> Forall (fun q => length q = k) particles -> (i <= length particles)%nat ->
  nth i (dist_table (N:=RN) k particles) (delta (N:=RN) k) r
  = mass (place k (skipn i particles)) (counts_are r).
Proof. exact dist_table_correct. Qed.
Print Assumptions C02_dist_table_correct.

(* general-dyne / heterodyne: what is handed to the normal sampler, for every d, every list of
   measured modes in any order, over any number structure: the index list is (x, p) of every
   mode in program order, mean = mu[idx], cov = (sigma[idx,idx] + hbar sigma_m^{(+)k}) / 2 *)
Theorem C02_xpxp_indices_order : forall modes i, (i < length modes)%nat ->
  nth (2 * i) (xpxp_indices modes) 0%nat = (2 * nth i modes 0)%nat /\
  nth (2 * i + 1) (xpxp_indices modes) 0%nat = (2 * nth i modes 0 + 1)%nat.
Proof. exact xpxp_indices_nth. Qed.
Print Assumptions C02_xpxp_indices_order.

Theorem C02_generaldyne_mean_arg : forall (N : num) (mu : list N) modes,
  length (dyne_mean_arg mu modes) = (2 * length modes)%nat /\
  forall a, (a < 2 * length modes)%nat ->
    nth a (dyne_mean_arg mu modes) n0 = nth (nth a (xpxp_indices modes) 0%nat) mu n0.
Proof. exact dyne_mean_arg_spec. Qed.
Print Assumptions C02_generaldyne_mean_arg.

Theorem C02_generaldyne_cov_arg : forall (N : num) halved (hbar : N) (sigma sm : list (list N)) modes,
  length (dyne_cov_arg halved hbar sigma sm modes) = (2 * length modes)%nat /\
  forall a b, (a < 2 * length modes)%nat -> (b < 2 * length modes)%nat ->
    mget (dyne_cov_arg halved hbar sigma sm modes) a b =
    let s := mget sigma (nth a (xpxp_indices modes) 0%nat) (nth b (xpxp_indices modes) 0%nat) in
    let m := block_diag_entry sm a b in
    if halved then ndiv (nadd s (nmul hbar m)) n2 else nadd s (nmul hbar m).
Proof. exact dyne_cov_arg_spec. Qed.
Print Assumptions C02_generaldyne_cov_arg.

(* with 2 invertible: twice the covariance handed over by the repaired code is
   sigma[idx,idx] + hbar sigma_m, i.e. the sampler receives (sigma + sigma_m)/2 *)
Theorem C02_generaldyne_cov_arg_is_half : forall (N : num) (hbar : N) (sigma sm : list (list N)) modes,
  (forall x : N, nmul n2 (ndiv x n2) = x) ->
  forall a b, (a < 2 * length modes)%nat -> (b < 2 * length modes)%nat ->
    nmul n2 (mget (dyne_cov_arg true hbar sigma sm modes) a b) =
    nadd (mget sigma (nth a (xpxp_indices modes) 0%nat) (nth b (xpxp_indices modes) 0%nat))
         (nmul hbar (block_diag_entry sm a b)).
Proof. exact dyne_cov_arg_doubled. Qed.
Print Assumptions C02_generaldyne_cov_arg_is_half.

(* one entry per measured quantity (both quadratures of every mode) for heterodyne and
   general-dyne; the homodyne class is the open finding C02:homodyne_measurement:two-entries-per-mode *)
Theorem C02_dyne_entries_except_homodyne_two_entries_per_mode :
  forall (N : num) kind (mu : list N) modes,
    kind <> Homodyne -> dyne_sample_entries mu modes = measured_quantities kind modes.
Proof. exact dyne_entries_except_homodyne_two_entries_per_mode. Qed.
Print Assumptions C02_dyne_entries_except_homodyne_two_entries_per_mode.

Theorem C02_homodyne_entries_refuted : forall (N : num) (mu : list N) modes, modes <> [] ->
  dyne_sample_entries mu modes <> measured_quantities Homodyne modes.
Proof. exact homodyne_entries_refuted. Qed.
Print Assumptions C02_homodyne_entries_refuted.

(* binning of sample_from_probability_map / get_counts, for every list of draws *)
Theorem C02_binning_counts_total : forall (A : Type) (eqb : A -> A -> bool) (samples : list A),
  sumc A (get_counts eqb samples) = length samples.
Proof. exact counts_total. Qed.
Print Assumptions C02_binning_counts_total.

Theorem C02_binning_counts_value : forall (A : Type) (eqb : A -> A -> bool),
  (forall x y, eqb x y = true <-> x = y) ->
  forall a samples, lookup A eqb a (get_counts eqb samples) = count A eqb a samples.
Proof. exact counts_value. Qed.
Print Assumptions C02_binning_counts_value.

Theorem C02_binning_frequencies_sum : forall A (eqb : A -> A -> bool) (samples : list A),
  samples <> [] -> (sumQ (map snd (frequencies eqb samples)) == 1)%Q.
Proof. exact binning_frequencies_sum. Qed.
Print Assumptions C02_binning_frequencies_sum.

(* _sample_dist_output_conditioned_on_postselection as a program in the distribution monad (its
   weights are the model's photon_weights, which the correspondence compares with the arrays handed
   to rng.choice): for every list of photons, every sequence s of drawn indices and every remaining
   post-selection pattern rem of non-zero probability, the law of the whole draw sequence is
   P(sequence = s and post-selected counts = rem) / P(post-selected counts = rem) under the product
   law of the photons, i.e. the product law conditioned on the post-selection *)
Theorem C02_conditioned_dist_law : forall (K k : nat) (photons : list photon),
  Forall (photon_ok K k) photons ->
  forall s rem, length s = length photons -> Forall (fun i => (i < K + 1 + k)%nat) s -> length rem = k ->
  Tb k photons rem <> 0%R ->
  mass (cond_sampler K k photons rem) (eqlN s) = (target K k photons s rem / Tb k photons rem)%R.
Proof. exact conditioned_dist_law. Qed.
Print Assumptions C02_conditioned_dist_law.

Theorem C02_conditioned_dist_denominator : forall K k (photons : list photon) rem,
  length rem = k -> Forall (photon_ok K k) photons ->
  Tb k photons rem = mass (place k (map snd photons)) (counts_are rem).
Proof. exact Tb_is_postselection_probability. Qed.
Print Assumptions C02_conditioned_dist_denominator.

(* homodyne: the model of homodyne_measurement (rotate the measured modes by phi, c = cos phi,
   s = sin phi, then the general-dyne sampler with detection covariance diag(z^2, 1/z^2)) hands
   over, for every measured mode in program order, the mean of x_phi = c x + s p (entry 2i) and
   of its conjugate -s x + c p (entry 2i+1) ... *)
Theorem C02_homodyne_mean_arg : forall (c s : R) (mu : list R) modes i e,
  (i < length modes)%nat -> (e < 2)%nat -> (2 * nth i modes 0%nat + 1 < length mu)%nat ->
  nth (2 * i + e) (homodyne_mean_arg (N:=RN) c s mu modes) 0%R =
  rotq c s e (nth (2 * nth i modes 0%nat) mu 0%R) (nth (2 * nth i modes 0%nat + 1) mu 0%R).
Proof. exact homodyne_mean_arg_spec. Qed.
Print Assumptions C02_homodyne_mean_arg.

(* ... and the covariance of those rotated quadratures (rows and columns rotated) plus
   hbar * diag(z^2, 1/z^2) on every measured mode, halved by the repaired code; for every d, every
   square covariance matrix and every list of measured modes in any order *)
Theorem C02_homodyne_cov_arg : forall halved (hbar c s z : R) (sigma : list (list R)) modes ia ea ib eb,
  Forall (fun r => length r = length sigma) sigma ->
  (ia < length modes)%nat -> (ib < length modes)%nat -> (ea < 2)%nat -> (eb < 2)%nat ->
  (2 * nth ia modes 0%nat + 1 < length sigma)%nat -> (2 * nth ib modes 0%nat + 1 < length sigma)%nat ->
  mget (N:=RN) (homodyne_cov_arg (N:=RN) halved hbar c s z sigma modes) (2 * ia + ea) (2 * ib + eb) =
  let ma := nth ia modes 0%nat in
  let mb := nth ib modes 0%nat in
  let S := rotq c s eb
             (rotq c s ea (mget (N:=RN) sigma (2 * ma) (2 * mb)) (mget (N:=RN) sigma (2 * ma + 1) (2 * mb)))
             (rotq c s ea (mget (N:=RN) sigma (2 * ma) (2 * mb + 1)) (mget (N:=RN) sigma (2 * ma + 1) (2 * mb + 1))) in
  let D := block_diag_entry (N:=RN) (homodyne_detection_cov (N:=RN) z) (2 * ia + ea) (2 * ib + eb) in
  (if halved then (S + hbar * D) / 2 else S + hbar * D)%R.
Proof. exact homodyne_cov_arg_spec. Qed.
Print Assumptions C02_homodyne_cov_arg.

Example C02_example_accept :
  run_from true true [0%nat] [1] 2 2 5 0 [Kept 0 1; Kept 0 0] = Accepted [1] 1%nat [].
Proof. exact postselect_accepts. Qed.
Example C02_example_retry :
  run_from true true [0%nat] [1] 2 2 5 0 [Lost; Lost; Kept 0 0; Lost] = Accepted [0] 2%nat [].
Proof. exact postselect_retries. Qed.
