"""Regenerates /verif/MANIFEST.json from the table below (run: /venv/bin/python harness/manifest.py)."""
import json
import os

VERIF = os.path.dirname(os.path.dirname(os.path.abspath(__file__)))
BASE = "cd /repo && /venv/bin/python -m pytest -ra -q -p no:cacheprovider --timeout=900 --continue-on-collection-errors"

ALL = ["C%02d" % i for i in range(1, 21)]

# each claimed property has harness/props/cxx.manifest.json: technique, text, note, design_ref
# only properties listed in harness/claimed.txt (verified green by the integrator) are claimed
_VERIFIED = set(open(os.path.join(VERIF, "harness", "claimed.txt")).read().split())
CLAIMED = {}
for _p in ALL:
    if _p not in _VERIFIED:
        continue
    _f = os.path.join(VERIF, "harness", "props", _p.lower() + ".manifest.json")
    if os.path.exists(_f) and os.path.exists(os.path.join(VERIF, "harness", "props", _p.lower() + ".py")):
        _m = json.load(open(_f))
        if _m.get("claimed", True):
            CLAIMED[_p] = (_m["technique"], _m["text"], _m["note"], _m.get("design_ref", "DESIGN.md section 4, " + _p))

REASON_NOT_YET = "check not built yet in this round (see DESIGN.md section 7 for the construction order)"


def main():
    checks = []
    for pid in ALL:
        if pid not in CLAIMED:
            continue
        tech, text, note, ref = CLAIMED[pid]
        checks.append(
            {
                "property_id": pid,
                "quick_cmd": "./check %s --tier quick" % pid,
                "thorough_cmd": "./check %s --tier thorough" % pid,
                "evidence_file": "/verif/evidence/%s.json" % pid,
                "replay_cmd_template": "./check %s --replay {path}" % pid,
                "engine": "coq-proof+correspondence",
                "level_claimed": {"category": "proof", "text": text, "design_ref": ref},
                "level_note": note,
                "technique": tech,
            }
        )
    man = {
        "version": 1,
        "setup_cmd": "./setup.sh",
        "hooks": {
            "guard": "PIQUASSO_VERIF",
            "enable": "no source hooks: the harness drives /repo from outside (PYTHONPATH=/repo, scripted RNG objects, monkey-patched fault injection); PIQUASSO_VERIF=1 is exported but nothing in /repo reads it",
            "baseline_off_cmd": BASE,
            "source_commits": [],
            "add_only": True,
        },
        "engines": [
            {
                "name": "coq-proof+correspondence",
                "path": "/verif/coq (theories, Props/Cxx.v), /verif/harness (generators, implementation runners, differ)",
                "serves_properties": sorted(CLAIMED),
                "kind_free_text": "Machine-checked proofs in Coq 8.16.1 about hand-written Gallina models (and translator-generated ones), tied to /repo on every run by a differential correspondence check evaluated with vm_compute inside coqc; a direct failing-input search on the implementation supplies replays.",
            }
        ],
        "checks": checks,
        "not_applicable": [
            {"property_id": p, "reason": REASON_NOT_YET} for p in ALL if p not in CLAIMED
        ],
        "notes": "fix commits in /repo are listed in known_findings.json ('fixed' entries). numba caches are redirected to /verif/.run/numba/<hash of /repo sources> so that a stale cache never hides a change.",
    }
    with open(os.path.join(VERIF, "MANIFEST.json"), "w") as f:
        json.dump(man, f, indent=1)
    print("MANIFEST.json: %d checks, %d not_applicable" % (len(checks), len(man["not_applicable"])))


if __name__ == "__main__":
    main()
