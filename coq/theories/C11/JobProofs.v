(* C11 (b) — the job ranges partition [0, idx_max) for every job count, hence the sum of
   the per-job accumulators is the same for every job count (in any monoid). *)
From Coq Require Import ZArith List Bool Lia ZifyBool.
From PV Require Import C11.GrayModel C11.GrayProofs.
Import ListNotations.
Open Scope Z_scope.

(* ------------------------------------------------------------------ ranges *)
Lemma zrange_length : forall n lo, length (zrange lo n) = n.
Proof. induction n; simpl; intros; auto. Qed.

Lemma zrange_app : forall a b lo,
  zrange lo (a + b) = zrange lo a ++ zrange (lo + Z.of_nat a) b.
Proof.
  induction a; intros b lo; simpl.
  - f_equal. lia.
  - f_equal. rewrite IHa. f_equal. f_equal. lia.
Qed.

Lemma in_zrange : forall n lo x, In x (zrange lo n) <-> lo <= x < lo + Z.of_nat n.
Proof.
  induction n; intros lo x; simpl; [lia|].
  rewrite IHn. lia.
Qed.

Lemma zrange_snoc n lo : zrange lo (S n) = zrange lo n ++ [lo + Z.of_nat n].
Proof. replace (S n) with (n + 1)%nat by lia. rewrite zrange_app. reflexivity. Qed.

(* m consecutive blocks of width w starting at block j0 *)
Lemma concat_blocks (wb : Z) : 0 <= wb -> forall m j0,
  concat (map (fun j => zrange (j * wb) (Z.to_nat wb)) (zrange j0 m)) =
  zrange (j0 * wb) (m * Z.to_nat wb).
Proof.
  intros Hwb. induction m; intros j0; simpl; auto.
  rewrite IHm, zrange_app. f_equal. f_equal. lia.
Qed.

(* job j works on [job_lo j, job_hi j], i.e. on this list of offsets *)
Definition job_range (idx_max K j : Z) : list Z :=
  zrange (job_lo idx_max K j) (Z.to_nat (job_hi idx_max K j - job_lo idx_max K j + 1)).

(* the ranges, in job order, are exactly 0, 1, ..., idx_max-1: disjoint and covering *)
Theorem jobs_partition idx_max K : 1 <= K <= idx_max ->
  concat (map (job_range idx_max K) (zrange 0 (Z.to_nat K))) = zrange 0 (Z.to_nat idx_max).
Proof.
  intros HK. set (wb := idx_max / K).
  assert (Hwb : 1 <= wb) by (apply Z.div_le_lower_bound; lia).
  assert (Hmul : K * wb <= idx_max) by (apply Z.mul_div_le; lia).
  replace (Z.to_nat K) with (S (Z.to_nat (K - 1))) by lia.
  rewrite zrange_snoc, map_app, concat_app. simpl. rewrite app_nil_r.
  rewrite (map_ext_in _ (fun j => zrange (j * wb) (Z.to_nat wb))).
  2:{ intros j Hj. apply in_zrange in Hj. unfold job_range, job_lo, job_hi. fold wb.
      replace (j =? K - 1) with false by lia. f_equal. lia. }
  rewrite (concat_blocks wb ltac:(lia)).
  unfold job_range, job_lo, job_hi. fold wb.
  replace (0 + Z.of_nat (Z.to_nat (K - 1)) =? K - 1) with true by lia.
  assert (E1 : (Z.to_nat (K - 1) * Z.to_nat wb)%nat = Z.to_nat ((K - 1) * wb))
    by (rewrite Z2Nat.inj_mul; lia).
  assert (Hb : 0 <= (K - 1) * wb <= idx_max) by nia.
  rewrite E1.
  replace (Z.to_nat idx_max) with
    (Z.to_nat ((K - 1) * wb) + Z.to_nat (idx_max - (K - 1) * wb))%nat by lia.
  rewrite zrange_app. rewrite !Z2Nat.id by lia.
  rewrite Z.eqb_refl. f_equal; f_equal; lia.
Qed.

Corollary jobs_cover_once idx_max K : 1 <= K <= idx_max ->
  forall o, 0 <= o < idx_max ->
  exists! j, 0 <= j < K /\ job_lo idx_max K j <= o <= job_hi idx_max K j.
Proof.
  intros HK o Ho. set (wb := idx_max / K).
  assert (Hwb : 1 <= wb) by (apply Z.div_le_lower_bound; lia).
  assert (Hmul : K * wb <= idx_max) by (apply Z.mul_div_le; lia).
  set (j := Z.min (o / wb) (K - 1)).
  assert (Hq : wb * (o / wb) <= o < wb * (o / wb) + wb).
  { pose proof (Z.div_mod o wb ltac:(lia)). pose proof (Z.mod_pos_bound o wb ltac:(lia)). lia. }
  assert (Hq0 : 0 <= o / wb) by (apply Z.div_pos; lia).
  exists j. split.
  - unfold job_lo, job_hi. fold wb. split; [lia|].
    destruct (j =? K - 1) eqn:E; nia.
  - intros j' [Hj' Hr]. unfold job_lo, job_hi in Hr. fold wb in Hr.
    destruct (j' =? K - 1) eqn:E; nia.
Qed.

(* ------------------------------------------------------------------ the job loop *)
Section Jobs.
  Variable bits : Z.
  Variable A : Type.
  Variable zero : A.
  Variable add : A -> A -> A.
  Hypothesis add_assoc : forall a b c, add a (add b c) = add (add a b) c.
  Hypothesis add_0_l : forall a, add zero a = a.
  Hypothesis add_0_r : forall a, add a zero = a.

  Variable St : Type.
  Variable s_init : list Z -> St.
  Variable s_step : St -> nat -> Z -> Z -> St.
  Variable s_addend : St -> A.
  Variable direct : list Z -> St.

  Variable lims : list Z.
  Hypothesis Hok : lims_ok lims.
  (* the running state is a function of the current Gray code: established at the start and
     preserved by a step that moves one digit by one *)
  Hypothesis init_direct : forall g, in_box lims g -> s_init g = direct g.
  Hypothesis step_direct : forall g i v, in_box lims g -> (i < length lims)%nat ->
    (v = nth i g 0 + 1 \/ v = nth i g 0 - 1) -> in_box lims (upd g i v) ->
    s_step (direct g) i (nth i g 0) v = direct (upd g i v).

  Let f (o : Z) : A := s_addend (direct (gcode lims o)).
  Let sumf := sum_left A add.

  Lemma sum_left_acc : forall l acc, sumf acc l = add acc (sumf zero l).
  Proof.
    induction l as [|a l IH]; intros acc; simpl; [rewrite add_0_r; reflexivity|].
    unfold sumf in *. simpl. rewrite (IH (add acc a)), (IH (add zero a)), add_0_l, add_assoc.
    reflexivity.
  Qed.

  Lemma sum_left_app : forall l1 l2 acc, sumf acc (l1 ++ l2) = sumf (sumf acc l1) l2.
  Proof. induction l1; intros; simpl; auto. Qed.

  Lemma sum_left_concat : forall (ll : list (list Z)) acc,
    sumf acc (map (fun r => sumf zero (map f r)) ll) = sumf acc (map f (concat ll)).
  Proof.
    induction ll as [|r ll IH]; intros acc; simpl; auto.
    rewrite map_app, sum_left_app. unfold sumf in *. simpl. rewrite IH. f_equal.
    symmetry. apply sum_left_acc.
  Qed.

  Lemma job_steps_spec hi : forall k o acc, 0 <= o -> o + Z.of_nat k < prodZ lims ->
    o + Z.of_nat k <= hi ->
    job_steps A add St s_step s_addend k (counter_at lims o hi) (direct (gcode lims o)) acc =
    sumf acc (map f (zrange (o + 1) k)).
  Proof.
    induction k as [|k IH]; intros o acc Ho Hp Hh; simpl; auto.
    destruct (next_spec lims o hi Hok Ho ltac:(lia) ltac:(lia))
      as (i & pv & v & Hn & Hi & Hpv & Hv & Hg).
    rewrite Hn. subst pv.
    assert (B0 : in_box lims (gcode lims o)) by (apply gcode_in_box; auto; lia).
    assert (B1 : in_box lims (upd (gcode lims o) i v))
      by (rewrite <- Hg; apply gcode_in_box; auto; lia).
    rewrite (step_direct _ i v B0 Hi Hv B1).
    rewrite <- Hg. rewrite IH by lia. reflexivity.
  Qed.

  Lemma job_spec lo hi : 0 <= lo <= hi -> hi < prodZ lims -> hi <= int_max bits ->
    job bits A zero add St s_init s_step s_addend lims lo hi =
    Some (sumf zero (map f (zrange lo (Z.to_nat (hi - lo + 1))))).
  Proof.
    intros Hlo Hhi Hint. unfold job.
    rewrite (construct_spec bits lims lo Hok) by lia.
    change (set_offset_max (counter_at lims lo (prodZ lims - 1)) hi) with (counter_at lims lo hi).
    simpl c_gray. rewrite init_direct by (apply gcode_in_box; auto; lia).
    rewrite job_steps_spec by lia.
    replace (Z.to_nat (hi - lo + 1)) with (S (Z.to_nat (hi - lo))) by lia.
    reflexivity.
  Qed.

  Lemma all_some_map {B} (F : B -> option A) (G : B -> A) : forall l,
    (forall x, In x l -> F x = Some (G x)) -> all_some A (map F l) = Some (map G l).
  Proof.
    induction l as [|x l IH]; intros H; simpl; auto.
    rewrite (H x (or_introl eq_refl)), IH; auto. intros y Hy. apply H. right. exact Hy.
  Qed.

  (* for every admissible job count the parallel section returns the reference sum *)
  Theorem jobs_total_eq_ref K : 1 <= K <= prodZ lims -> prodZ lims - 1 <= int_max bits ->
    jobs_total bits A zero add St s_init s_step s_addend lims K =
    Some (ref_total A zero add St s_addend direct lims).
  Proof.
    intros HK Hint. unfold jobs_total, ref_total.
    set (idx_max := prodZ lims) in *.
    set (wb := idx_max / K).
    assert (Hwb : 1 <= wb) by (apply Z.div_le_lower_bound; lia).
    assert (Hmul : K * wb <= idx_max) by (apply Z.mul_div_le; lia).
    rewrite (all_some_map _ (fun j => sumf zero (map f (job_range idx_max K j)))).
    - fold sumf. rewrite <- (jobs_partition idx_max K HK).
      rewrite <- sum_left_concat. rewrite map_map. reflexivity.
    - intros j Hj. apply in_zrange in Hj. unfold job_range.
      unfold job_lo, job_hi. fold wb.
      destruct (j =? K - 1) eqn:E; apply job_spec; nia.
  Qed.

  Corollary jobs_independent K K' : 1 <= K <= prodZ lims -> 1 <= K' <= prodZ lims ->
    prodZ lims - 1 <= int_max bits ->
    jobs_total bits A zero add St s_init s_step s_addend lims K =
    jobs_total bits A zero add St s_init s_step s_addend lims K'.
  Proof. intros. rewrite !jobs_total_eq_ref; auto. Qed.
End Jobs.

(* the job count chosen by the repaired code is always admissible *)
Theorem concurrency_admissible hc idx_max : 0 <= hc -> 1 <= idx_max ->
  1 <= concurrency true hc idx_max <= idx_max.
Proof. intros. unfold concurrency. cbn [andb]. destruct (hc =? 0) eqn:E; lia. Qed.

(* ... and for the code as it was, a hardware-concurrency query returning 0 gives 0 jobs *)
Theorem concurrency_zero_refuted : exists hc idx_max, 0 <= hc /\ 1 <= idx_max /\
  ~ (1 <= concurrency false hc idx_max).
Proof. exists 0, 6. vm_compute. repeat split; congruence. Qed.
