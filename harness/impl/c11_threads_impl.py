"""Implementation side of C11, thread sweep (a labelled differential test, no theorem):
deterministic quantities that go through the numba-parallel hafnian / loop-hafnian kernels,
the torontonian, the native permanent and calculate_interferometer_on_fock_space, on cheap fixed
inputs.  The harness runs this with NUMBA_NUM_THREADS / OMP_NUM_THREADS in {1, 2, 5, 16} and
compares the numbers."""
import json
import os
import sys

import numpy as np


def cplx(a):
    a = np.asarray(a, dtype=complex).ravel()
    return [[float(z.real), float(z.imag)] for z in a]


def main():
    req = json.load(sys.stdin)
    import numba

    import piquasso as pq

    out = {"loaded_from": os.path.dirname(os.path.dirname(os.path.realpath(pq.__file__))),
           "numba_threads": int(numba.get_num_threads())}
    rng = np.random.default_rng(req.get("seed", 0))
    r1, r2, r3 = rng.uniform(0.3, 0.8, 3)
    ph = rng.uniform(0, 2 * np.pi, 3)
    th = rng.uniform(0.3, 1.2, 3)

    # Gaussian state: hafnian (no displacement) and loop hafnian (displaced), torontonian
    def gauss(displaced):
        with pq.Program() as p:
            pq.Q(all) | pq.Vacuum()
            pq.Q(0) | pq.Squeezing(r=r1, phi=ph[0])
            pq.Q(1) | pq.Squeezing(r=r2, phi=ph[1])
            pq.Q(2) | pq.Squeezing(r=r3)
            if displaced:
                pq.Q(0) | pq.Displacement(r=0.4, phi=ph[2])
                pq.Q(2) | pq.Displacement(r=0.3)
            pq.Q(0, 1) | pq.Beamsplitter(theta=th[0], phi=ph[2])
            pq.Q(1, 2) | pq.Beamsplitter(theta=th[1])
        return pq.GaussianSimulator(d=3, config=pq.Config(cutoff=5)).execute(p).state

    occs = [(0, 0, 0), (1, 1, 0), (2, 0, 2), (1, 2, 1), (2, 2, 2), (3, 1, 0)]
    for name, disp in (("hafnian", False), ("loop_hafnian", True)):
        st = gauss(disp)
        out[name] = [float(st.get_particle_detection_probability(o)) for o in occs]
        out[name + "_fock_probabilities"] = [float(x) for x in st.fock_probabilities]
        out["torontonian" + ("_loop" if disp else "")] = [
            float(st.get_threshold_detection_probability(o))
            for o in [(0, 0, 0), (1, 0, 1), (1, 1, 1), (0, 1, 1)]]

    # calculate_interferometer_on_fock_space through the pure Fock simulator
    from scipy.stats import unitary_group

    U = unitary_group.rvs(3, random_state=int(req.get("seed", 0)) + 5)
    with pq.Program() as p:
        pq.Q(all) | pq.StateVector([1, 1, 0]) * np.sqrt(0.5)
        pq.Q(all) | pq.StateVector([0, 2, 1]) * np.sqrt(0.5)
        pq.Q(all) | pq.Interferometer(U)
    st = pq.PureFockSimulator(d=3, config=pq.Config(cutoff=5)).execute(p).state
    out["interferometer_on_fock_space"] = cplx(st.state_vector)

    # the permanent through the shipped extension (OpenMP)
    from piquasso._math.permanent import permanent

    A = (rng.normal(size=(4, 4)) + 1j * rng.normal(size=(4, 4)))
    out["permanent"] = cplx([permanent(A, np.array(r, dtype=np.int32 if False else int), np.array(c, dtype=int))
                             for r, c in (([1, 1, 1, 1], [1, 1, 1, 1]), ([2, 0, 1, 2], [1, 2, 2, 0]),
                                          ([3, 1, 0, 1], [0, 0, 2, 3]))])
    print(json.dumps(out))


main()
